/- C01: replaying the contract's events of one operation reproduces the tree after the operation -/
import WD.Proofs.Pipeline.Tree
set_option linter.unusedSimpArgs false
namespace WD.Pipe

variable {fs : FS}

theorem find?_none_of_not_exists {p : P} (h : fs.exists p = false) : ∀ e ∈ fs.ents, e.path ≠ p := by
  have : fs.find? p = none := by
    cases hf : fs.find? p with
    | none => rfl
    | some e => simp [FS.exists, hf] at h
  exact FS.find?_none.mp this

/-- the tree after adding one entry -/
theorem treeW_add (hp : 2 ≤ p.length) (hne : fs.exists p = false) (hpar : fs.isDir (parentOf p) = true) (d : Bool) :
    sameTree (treeW (fs.add p d)) (if watchedDir fs true (parentOf p) then setEntry (treeW fs) p d else treeW fs) := by
  have hu := isUnderW_iff_parent hp hpar
  have hnone := find?_none_of_not_exists hne
  intro y
  rw [mem_treeW]
  cases hw : watchedDir fs true (parentOf p) with
  | true =>
    simp only [if_true, mem_setEntry, mem_treeW]
    constructor
    · rintro ⟨e, he, h1, h2, h3⟩
      rcases FS.mem_add.mp he with h | h
      · exact Or.inl ⟨⟨e, h, h1, h2, h3⟩, by rw [← h1]; exact hnone e h⟩
      · subst h; exact Or.inr (Prod.ext h1.symm h2.symm)
    · rintro (⟨⟨e, he, h1, h2, h3⟩, _⟩ | h)
      · exact ⟨e, FS.mem_add.mpr (Or.inl he), h1, h2, h3⟩
      · subst h; exact ⟨_, FS.mem_add.mpr (Or.inr rfl), rfl, rfl, by rw [hu, hw]⟩
  | false =>
    simp only [Bool.false_eq_true, if_false, mem_treeW]
    constructor
    · rintro ⟨e, he, h1, h2, h3⟩
      rcases FS.mem_add.mp he with h | h
      · exact ⟨e, h, h1, h2, h3⟩
      · subst h; simp only at h1; rw [← h1, hu, hw] at h3; cases h3
    · rintro ⟨e, he, h1, h2, h3⟩
      exact ⟨e, FS.mem_add.mpr (Or.inl he), h1, h2, h3⟩

/-- the tree after removing one entry that has nothing below it -/
theorem treeW_del (hwf : fs.WF) {p : P} (hleaf : ∀ x ∈ fs.ents, isUnder p x.path = false) :
    sameTree (treeW (fs.del p)) (eraseSub (treeW fs) p) := by
  intro y
  rw [mem_treeW, mem_eraseSub, mem_treeW]
  constructor
  · rintro ⟨e, he, h1, h2, h3⟩
    obtain ⟨he1, he2⟩ := FS.mem_del.mp he
    exact ⟨⟨e, he1, h1, h2, h3⟩, by rw [← h1]; exact he2, by rw [← h1]; exact hleaf e he1⟩
  · rintro ⟨⟨e, he, h1, h2, h3⟩, h4, _⟩
    exact ⟨e, FS.mem_del.mpr ⟨he, by rw [h1]; exact h4⟩, h1, h2, h3⟩

/-- erasing a path that is not below the root changes nothing of the tree -/
theorem eraseSub_outside (hwf : fs.WF) {p : P} (hp : 2 ≤ p.length) (hu : isUnder ["W"] p = false) :
    sameTree (eraseSub (treeW fs) p) (treeW fs) := by
  intro y
  rw [mem_eraseSub]
  constructor
  · exact fun h => h.1
  · intro h
    obtain ⟨e, _, _, _, h3⟩ := mem_treeW.mp h
    refine ⟨h, ?_, ?_⟩
    · intro hh; rw [hh, hu] at h3; cases h3
    · cases hc : isUnder p y.1 with
      | false => rfl
      | true => rw [isUnderW_of_under hp hc, hu] at h3; cases h3

theorem applyEv_mk_created (t : Tree) (d : Bool) (p : P) : applyEv t (mkEv (createdCls d) p) = setEntry t p d := by
  cases d <;> exact applyEv_created _ _ rfl _ _ _
theorem applyEv_mk_fcreated (t : Tree) (p : P) : applyEv t (mkEv .FileCreatedEvent p) = setEntry t p false :=
  applyEv_created _ _ rfl _ _ _
theorem applyEv_mk_dcreated (t : Tree) (p : P) : applyEv t (mkEv .DirCreatedEvent p) = setEntry t p true :=
  applyEv_created _ _ rfl _ _ _
theorem applyEv_mk_opened (t : Tree) (p : P) : applyEv t (mkEv .FileOpenedEvent p) = t := applyEv_other _ _ (by decide) _ _ _
theorem applyEv_mk_closed (t : Tree) (p : P) : applyEv t (mkEv .FileClosedEvent p) = t := applyEv_other _ _ (by decide) _ _ _
theorem applyEv_mk_fmod (t : Tree) (p : P) : applyEv t (mkEv .FileModifiedEvent p) = t := applyEv_other _ _ (by decide) _ _ _
theorem applyEv_mk_dmod (t : Tree) (p : P) : applyEv t (mkEv .DirModifiedEvent p) = t := applyEv_other _ _ (by decide) _ _ _

theorem replay_evDeleted (t : Tree) (d : Bool) (p : P) : replay t (evDeleted d p) = eraseSub t p := by
  simp only [evDeleted, replay_cons, replay_nil, applyEv_dirMod]
  cases d
  · exact applyEv_deleted _ _ rfl _ _ _
  · exact applyEv_deleted _ _ rfl _ _ _

end WD.Pipe

namespace WD.Pipe
variable {fs : FS}

theorem replay_create (hwf : fs.WF) (full : Bool) (p : P) (hv : validOp fs (.create p) = true) :
    sameTree (replay (treeW fs) (contract fs true full (.create p)).1) (treeW (fsAfter fs (.create p))) := by
  obtain ⟨hp, hne, hpar⟩ := validOp_create hv
  have h1 : fsAfter fs (.create p) = fs.add p false := rfl
  rw [h1]
  apply sameTree_symm
  apply sameTree_trans (treeW_add hp hne hpar false)
  cases hw : watchedDir fs true (parentOf p) <;>
    simp [contract, hw, replay_cons, replay_nil, applyEv_dirMod, applyEv_mk_fcreated, applyEv_mk_opened, applyEv_mk_closed, sameTree_refl]

theorem replay_mkdir (hwf : fs.WF) (full : Bool) (p : P) (hv : validOp fs (.mkdir p) = true) :
    sameTree (replay (treeW fs) (contract fs true full (.mkdir p)).1) (treeW (fsAfter fs (.mkdir p))) := by
  obtain ⟨hp, hne, hpar⟩ := validOp_mkdir hv
  have h1 : fsAfter fs (.mkdir p) = fs.add p true := rfl
  rw [h1]
  apply sameTree_symm
  apply sameTree_trans (treeW_add hp hne hpar true)
  cases hw : watchedDir fs true (parentOf p) <;>
    simp [contract, hw, replay_cons, replay_nil, applyEv_dirMod, applyEv_mk_dcreated, sameTree_refl]

theorem replay_write (full : Bool) (p : P) :
    sameTree (replay (treeW fs) (contract fs true full (.write p)).1) (treeW (fsAfter fs (.write p))) := by
  have h1 : fsAfter fs (.write p) = fs := rfl
  rw [h1]
  cases hw : watchedDir fs true (parentOf p) <;>
    simp [contract, hw, replay_cons, replay_nil, applyEv_dirMod, applyEv_mk_fmod, applyEv_mk_opened, applyEv_mk_closed, sameTree_refl]

theorem replay_chmod (full : Bool) (p : P) :
    sameTree (replay (treeW fs) (contract fs true full (.chmod p)).1) (treeW (fsAfter fs (.chmod p))) := by
  have h1 : fsAfter fs (.chmod p) = fs := by
    simp only [fsAfter, kernelOp]; cases fs.find? p <;> rfl
  rw [h1]
  simp only [contract]
  cases hf : fs.find? p with
  | none => exact sameTree_refl _
  | some e =>
    simp only
    by_cases h4 : watchedDir fs true (parentOf p) = true <;> by_cases h3 : watchedDir fs true p = true <;>
      cases h2 : e.isDir <;>
      simp [h2, h3, h4, replay_cons, replay_nil, applyEv_mk_fmod, applyEv_mk_dmod, sameTree_refl]

/-- removing an entry with nothing below it: a file, or an empty directory -/
theorem replay_remove_leaf (hwf : fs.WF) {p : P} {e : Ent} (he : fs.find? p = some e) (hp2 : 2 ≤ p.length)
    (hleaf : ∀ x ∈ fs.ents, isUnder p x.path = false) :
    sameTree (replay (treeW fs) (if watchedDir fs true (parentOf p) then evDeleted e.isDir p else [])) (treeW (fs.del p)) := by
  have hem := FS.find?_some he
  have hpar : fs.isDir (parentOf p) = true := by
    rcases hwf.parent hem.1 with h | h | h
    · rw [hem.2] at h; rw [h] at hp2; simp at hp2
    · rw [hem.2] at h; rw [h] at hp2; simp at hp2
    · rw [hem.2] at h; exact h.2
  have hu := isUnderW_iff_parent hp2 hpar
  apply sameTree_symm
  apply sameTree_trans (treeW_del hwf hleaf)
  cases hw : watchedDir fs true (parentOf p) with
  | true => simp only [if_true, replay_evDeleted]; exact sameTree_refl _
  | false =>
    simp only [Bool.false_eq_true, if_false, replay_nil]
    exact eraseSub_outside hwf hp2 (by rw [hu, hw])

theorem replay_unlink (hwf : fs.WF) (full : Bool) (p : P) (hv : validOp fs (.unlink p) = true) :
    sameTree (replay (treeW fs) (contract fs true full (.unlink p)).1) (treeW (fsAfter fs (.unlink p))) := by
  have hv' : fs.isFile p = true := by simpa [validOp] using hv
  obtain ⟨f, hf, hfile⟩ := FS.isFile_iff.mp hv'
  have hfm := FS.find?_some hf
  have hp2 : 2 ≤ p.length := by
    rcases hwf.parent hfm.1 with h | h | h
    · have := hwf.rootW; rw [← h, hfm.2] at this
      obtain ⟨d, hd, hdd⟩ := FS.isDir_iff.mp this; rw [hf] at hd; cases hd; rw [hfile] at hdd; cases hdd
    · have := hwf.rootO; rw [← h, hfm.2] at this
      obtain ⟨d, hd, hdd⟩ := FS.isDir_iff.mp this; rw [hf] at hd; cases hd; rw [hfile] at hdd; cases hdd
    · rw [← hfm.2]; exact h.1
  have h1 : fsAfter fs (.unlink p) = fs.del p := by simp [fsAfter, kernelOp, hf, removeEntry, hfm.2, FS.del]
  have hex : fs.exists p = true := FS.exists_iff.mpr ⟨f, hf⟩
  rw [h1]
  have := replay_remove_leaf hwf hf hp2 (hwf.file_no_desc hf hfile (ne_nil_of_two_le hp2))
  rw [hfile] at this
  simpa [contract, hex] using this

theorem replay_rmdir (hwf : fs.WF) (full : Bool) (p : P) (hv : validOp fs (.rmdir p) = true) :
    sameTree (replay (treeW fs) (contract fs true full (.rmdir p)).1) (treeW (fsAfter fs (.rmdir p))) := by
  have hv' : (2 ≤ p.length ∨ p = ["W"]) ∧ fs.isDir p = true ∧ (fs.children p).isEmpty = true := by
    have := hv; simp [validOp] at this; exact ⟨this.1.1, this.1.2, by simpa using this.2⟩
  obtain ⟨e, he, hd⟩ := FS.isDir_iff.mp hv'.2.1
  have hem := FS.find?_some he
  have hex : fs.exists p = true := FS.exists_iff.mpr ⟨e, he⟩
  have h1 : fsAfter fs (.rmdir p) = fs.del p := by simp [fsAfter, kernelOp, he, removeEntry, hem.2, FS.del]
  have hnn : p ≠ [] := hem.2 ▸ hwf.path_ne_nil hem.1
  have hleaf := hwf.no_desc_of_no_children hnn hv'.2.2
  rw [h1]
  by_cases hW : p = ["W"]
  · subst hW
    have : (contract fs true full (.rmdir ["W"])).1 = [mkEv .DirDeletedEvent ["W"]] := by simp [contract]
    rw [this, replay_cons, replay_nil, show mkEv .DirDeletedEvent ["W"] = ⟨.DirDeletedEvent, ["W"], [], false⟩ from rfl,
      applyEv_deleted _ _ rfl]
    intro y
    rw [mem_eraseSub, mem_treeW, mem_treeW]
    constructor
    · rintro ⟨⟨x, hx, h1', _, h3'⟩, _, h4⟩
      rw [h3'] at h4; cases h4
    · rintro ⟨x, hx, h1', _, h3⟩
      have := hleaf x (FS.mem_del.mp hx).1; rw [h1', h3] at this; cases this
  · have hp2 : 2 ≤ p.length := by rcases hv'.1 with h | h; exact h; exact absurd h hW
    have := replay_remove_leaf hwf he hp2 hleaf
    rw [hd] at this
    have hb : (p == ["W"]) = false := by simp [hW]
    simpa [contract, hb, hex] using this

end WD.Pipe

namespace WD.Pipe
variable {fs : FS}

theorem mem_removeAll_fs (es : List Ent) (fs : FS) (k : Kern) (x : Ent) :
    x ∈ (removeAll fs k es).1.ents ↔ x ∈ fs.ents ∧ x.path ∉ es.map Ent.path := by
  induction es generalizing fs k with
  | nil => simp [removeAll_nil]
  | cons e rest ih =>
    rw [removeAll_cons]
    simp only
    rw [ih]
    have : (removeEntry fs k e).1 = fs.del e.path := rfl
    rw [this, FS.mem_del]
    simp only [List.map_cons, List.mem_cons, not_or]
    constructor
    · rintro ⟨⟨h1, h2⟩, h3⟩; exact ⟨h1, h2, h3⟩
    · rintro ⟨h1, h2, h3⟩; exact ⟨⟨h1, h2⟩, h3⟩

theorem mem_replay_removals (es : List Ent) (f : Ent → Bool) (t : Tree) (y : P × Bool) :
    y ∈ replay t (es.flatMap (fun x => if f x then evDeleted x.isDir x.path else [])) ↔
      y ∈ t ∧ ∀ x ∈ es, f x = true → y.1 ≠ x.path ∧ isUnder x.path y.1 = false := by
  induction es generalizing t with
  | nil => simp [replay_nil]
  | cons e rest ih =>
    rw [List.flatMap_cons, replay_append, ih]
    cases hf : f e with
    | false =>
      simp only [Bool.false_eq_true, if_false, replay_nil, List.mem_cons, forall_eq_or_imp, hf, false_imp_iff, true_and]
    | true =>
      simp only [if_true, replay_evDeleted, mem_eraseSub, List.mem_cons, forall_eq_or_imp, hf, true_imp_iff]
      constructor
      · rintro ⟨⟨h1, h2, h3⟩, h4⟩; exact ⟨h1, ⟨h2, h3⟩, h4⟩
      · rintro ⟨h1, ⟨h2, h3⟩, h4⟩; exact ⟨⟨h1, h2, h3⟩, h4⟩

theorem replay_rmtreeOrd (hwf : fs.WF) (full : Bool) (p : P) (order : List P) (hv : validOp fs (.rmtreeOrd p order) = true) :
    sameTree (replay (treeW fs) (contract fs true full (.rmtreeOrd p order)).1) (treeW (fsAfter fs (.rmtreeOrd p order))) := by
  have hv' := hv
  simp only [validOp, validRmtree, Bool.and_eq_true, decide_eq_true_eq, List.all_eq_true] at hv'
  obtain ⟨⟨⟨⟨⟨hp2, hdir⟩, hall⟩, hdesc⟩, _⟩, _⟩ := hv'
  obtain ⟨e, he, _⟩ := FS.isDir_iff.mp hdir
  have hem := FS.find?_some he
  have hex : ∀ q ∈ order, fs.exists q = true := fun q hq => (hall q hq).2
  have hpaths := filterMap_find_paths (fs := fs) order hex
  have hfs : fsAfter fs (.rmtreeOrd p order) = (removeAll fs ⟨[], 1, 1⟩ (order.filterMap fs.find? ++ [e])).1 := by
    simp [fsAfter, kernelOp, he]
  have hmemes : ∀ x ∈ order.filterMap fs.find? ++ [e], x ∈ fs.ents ∧ 2 ≤ x.path.length ∧ (x.path = p ∨ isUnder p x.path = true) := by
    intro x hx
    rcases List.mem_append.mp hx with h | h
    · obtain ⟨h1, h2⟩ := mem_filterMap_find h
      have := isUnder_length (hall _ h2).1
      exact ⟨h1, by omega, Or.inr (hall _ h2).1⟩
    · simp at h; subst h; exact ⟨hem.1, hem.2 ▸ hp2, Or.inl hem.2⟩
  intro y
  rw [hfs]
  simp only [contract, contractRemovals, he, Option.toList_some]
  rw [mem_replay_removals, mem_treeW, mem_treeW]
  have hespaths : (order.filterMap fs.find? ++ [e]).map Ent.path = order ++ [p] := by
    simp [hpaths, hem.2]
  constructor
  · rintro ⟨⟨x, hx, h1, h2, h3⟩, hall'⟩
    refine ⟨x, (mem_removeAll_fs _ _ _ _).mpr ⟨hx, ?_⟩, h1, h2, h3⟩
    intro hin
    obtain ⟨x', hx', hpx⟩ := List.mem_map.mp hin
    obtain ⟨m1, m2, _⟩ := hmemes x' hx'
    have hw : watchedDir fs true (parentOf x'.path) = true := by
      rw [watchedDir_parent_of_mem hwf m1 m2]
      have hu : isUnder ["W"] x'.path = true := by rw [hpx, h1]; exact h3
      simp only [inTreePath, Bool.or_eq_true, beq_iff_eq]
      rcases isUnder_parent hu with h | h
      · exact Or.inl h
      · exact Or.inr h
    exact (hall' x' hx' hw).1 (by rw [← h1, hpx])
  · rintro ⟨x, hx, h1, h2, h3⟩
    obtain ⟨hx1, hx2⟩ := (mem_removeAll_fs _ _ _ _).mp hx
    refine ⟨⟨x, hx1, h1, h2, h3⟩, ?_⟩
    intro x' hx' _
    obtain ⟨m1, m2, m3⟩ := hmemes x' hx'
    constructor
    · intro hh; exact hx2 (List.mem_map.mpr ⟨x', hx', by rw [← hh, h1]⟩)
    · cases hu : isUnder x'.path y.1 with
      | false => rfl
      | true =>
        exfalso
        have hup : isUnder p x.path = true := by
          rw [h1]
          rcases m3 with h | h
          · rw [← h]; exact hu
          · exact isUnder_trans h hu
        have hin : x ∈ fs.descendants p := by unfold FS.descendants; exact List.mem_filter.mpr ⟨hx1, hup⟩
        have hc := hdesc x hin
        simp only [List.contains_iff_mem] at hc
        apply hx2
        rw [hespaths]; exact List.mem_append_left _ hc

theorem replay_rmtree (hwf : fs.WF) (full : Bool) (p : P) (hv : validOp fs (.rmtree p) = true) :
    sameTree (replay (treeW fs) (contract fs true full (.rmtree p)).1) (treeW (fsAfter fs (.rmtree p))) :=
  replay_rmtreeOrd hwf full p (canonOrder fs p) hv

end WD.Pipe
