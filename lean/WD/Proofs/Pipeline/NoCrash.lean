/- proofs behind WD.Props.C07 -/
import WD.Model.Pipeline
import WD.Spec.PipelineSpec
namespace WD.ProofsPipe
open WD WD.Pipe

theorem no_crash (fs0 : FS) (hwf : fs0.WF) (recursive full : Bool) (ops : List Op)
    (hv : allValid (Sys.start fs0 recursive full) ops = true) :
    ((Sys.start fs0 recursive full).run ops).1.crashed = false := by
  sorry

theorem stops_only_on_root_deletion (fs0 : FS) (hwf : fs0.WF) (recursive full : Bool) (ops : List Op)
    (hv : allValid (Sys.start fs0 recursive full) ops = true)
    (hs : ((Sys.start fs0 recursive full).run ops).1.stopped = true) :
    ((Sys.start fs0 recursive full).run ops).1.fs.exists ["W"] = false ∧
    (allEvents ((Sys.start fs0 recursive full).run ops)).getLast? = some ⟨.DirDeletedEvent, ["W"], [], false⟩ ∧
    ((allEvents ((Sys.start fs0 recursive full).run ops)).filter (fun e => e.cls == .DirDeletedEvent && e.src == ["W"])).length = 1 := by
  sorry

end WD.ProofsPipe
