/- proofs behind WD.Props.C02 -/
import WD.Model.Pipeline
import WD.Spec.PipelineSpec
namespace WD.ProofsPipe
open WD WD.Pipe

theorem coverage_inv (fs0 : FS) (hwf : fs0.WF) (full : Bool) (ops : List Op)
    (h : histOk (Sys.start fs0 true full) ops = true)
    (hns : ((Sys.start fs0 true full).run ops).1.stopped = false) :
    Covered ((Sys.start fs0 true full).run ops).1 := by
  sorry

theorem probe_reported (fs0 : FS) (hwf : fs0.WF) (full : Bool) (ops : List Op)
    (h : histOk (Sys.start fs0 true full) ops = true)
    (hns : ((Sys.start fs0 true full).run ops).1.stopped = false)
    (d : P) (name : String) (hd : ((Sys.start fs0 true full).run ops).1.fs.isDir d = true)
    (hu : d = ["W"] ∨ isUnder ["W"] d = true)
    (hfree : ((Sys.start fs0 true full).run ops).1.fs.exists (d ++ [name]) = false) :
    (⟨.FileCreatedEvent, d ++ [name], [], false⟩ : PEv) ∈
      ((((Sys.start fs0 true full).run ops).1).op (.create (d ++ [name]))).2 := by
  sorry

theorem nonrecursive_depth (fs0 : FS) (hwf : fs0.WF) (full : Bool) (ops : List Op)
    (hv : allValid (Sys.start fs0 false full) ops = true) (e : PEv)
    (he : e ∈ allEvents ((Sys.start fs0 false full).run ops)) : e.src.length ≤ 2 ∧ e.dest.length ≤ 2 := by
  sorry

theorem nonrecursive_children (fs0 : FS) (hwf : fs0.WF) (full : Bool) (ops : List Op)
    (hv : allValid (Sys.start fs0 false full) ops = true)
    (hns : ((Sys.start fs0 false full).run ops).1.stopped = false) (name : String)
    (hfree : ((Sys.start fs0 false full).run ops).1.fs.exists ["W", name] = false)
    (hw : ((Sys.start fs0 false full).run ops).1.fs.isDir ["W"] = true) :
    (⟨.FileCreatedEvent, ["W", name], [], false⟩ : PEv) ∈
      ((((Sys.start fs0 false full).run ops).1).op (.create ["W", name])).2 := by
  sorry

end WD.ProofsPipe
