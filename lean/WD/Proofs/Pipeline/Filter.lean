/- the filtered pipeline delivers exactly the unfiltered stream restricted to the filter's classes (recursive watch) -/
import WD.Model.PipelineFilter
import WD.Proofs.Pipeline.Run
namespace WD.Pipe

/-- the mask keeps what the library's own directory bookkeeping needs (and the root's DELETE_SELF) -/
structure Book (m : Flag → Bool) : Prop where
  create : m .create = true
  movedFrom : m .movedFrom = true
  movedTo : m .movedTo = true
  deleteSelf : m .deleteSelf = true

/-- a record kind outside the mask only ever yields events the filter rejects, and never stops the emitter -/
def Complete (m : Flag → Bool) (acc : EvClass → Bool) : Prop :=
  ∀ (fs : FS) (recursive full : Bool) (e : LEv), m e.flag = false → e.flag ≠ .ignored →
    (∀ ev ∈ (emit fs recursive full (.one e)).1, acc ev.cls = false) ∧ (emit fs recursive full (.one e)).2 = false

def keepL (m : Flag → Bool) (e : LEv) : Bool := e.flag == .ignored || m e.flag
def keepG (m : Flag → Bool) : Grouped → Bool
  | .one e => keepL m e
  | .two _ _ => true

/-! ### the reader -/

theorem libRecord_dropped {m : Flag → Bool} (hb : Book m) {fs : FS} {k : Kern} {lib : Lib} {r : NRec}
    (hr : (r.flag == .ignored || m r.flag) = false) {k' : Kern} {lib' : Lib} {evs : List LEv}
    (h : libRecord fs k lib r = some (k', lib', evs)) :
    k' = k ∧ lib' = lib ∧ evs.filter (keepL m) = [] := by
  simp only [Bool.or_eq_false_iff] at hr
  unfold libRecord at h
  split at h
  · cases h
  · next wdPath _ =>
    cases hf : r.flag <;> simp only [hf] at h hr <;>
      first
      | (simp [hb.create] at hr; done)
      | (simp [hb.movedFrom] at hr; done)
      | (simp [hb.movedTo] at hr; done)
      | (simp at hr; done)
      | (cases h; refine ⟨rfl, rfl, ?_⟩; simp [keepL, hr.2])

theorem libRecord_kept {m : Flag → Bool} (hb : Book m) {fs : FS} {k : Kern} {lib : Lib} {r : NRec}
    (hr : (r.flag == .ignored || m r.flag) = true) {k' : Kern} {lib' : Lib} {evs : List LEv}
    (h : libRecord fs k lib r = some (k', lib', evs)) : evs.filter (keepL m) = evs := by
  rw [List.filter_eq_self]
  intro e he
  have hflag : e.flag = r.flag ∨ e.flag = .create := by
    unfold libRecord at h
    split at h
    · cases h
    · next wdPath _ =>
      cases hf : r.flag <;> simp only [hf] at h <;>
        first
        | (cases h; simp at he; left; rw [he])
        | skip
      -- create: the record's own event or a simulated CREATE
      split at h
      · split at h
        · cases h; simp at he; left; rw [he]
        · next k1 l1 wd0 hadd =>
          simp only [Option.some.injEq, Prod.mk.injEq] at h
          obtain ⟨_, _, rfl⟩ := h
          simp only [List.mem_cons] at he
          rcases he with rfl | he
          · left; rfl
          · right
            -- every simulated event is a CREATE
            have : ∀ (l : List Ent) (acc : Kern × Lib × List LEv), (∀ x ∈ acc.2.2, x.flag = Flag.create) →
                ∀ x ∈ (l.foldl (fun (acc : Kern × Lib × List LEv) e =>
                  if e.isDir then
                    match addWatch fs acc.1 acc.2.1 e.path with
                    | some (ka, la, wd) => (ka, la, acc.2.2 ++ [⟨wd, .create, true, 0, some (baseName e.path), e.path⟩])
                    | none => acc
                  else
                    match lookupP acc.2.1.wdForPath (parentOf e.path) with
                    | some wd => (acc.1, acc.2.1, acc.2.2 ++ [⟨wd, .create, false, 0, some (baseName e.path), e.path⟩])
                    | none => acc) acc).2.2, x.flag = Flag.create := by
              intro l
              induction l with
              | nil => intro acc ha; exact ha
              | cons y ys ih =>
                intro acc ha
                simp only [List.foldl_cons]
                apply ih
                split
                · split
                  · intro x hx; simp at hx; rcases hx with hx | rfl
                    · exact ha x hx
                    · rfl
                  · exact ha
                · split
                  · intro x hx; simp at hx; rcases hx with hx | rfl
                    · exact ha x hx
                    · rfl
                  · exact ha
            exact this _ _ (by simp) e he
      · cases h; simp at he; left; rw [he]
  rcases hflag with e1 | e1
  · simp only [keepL, e1]; exact hr
  · simp [keepL, e1, hb.create]

theorem libBatch_mask {m : Flag → Bool} (hb : Book m) (fs : FS) (recs : List NRec) :
    ∀ (k : Kern) (lib : Lib) (k' : Kern) (lib' : Lib) (levs : List LEv),
      libBatch fs k lib recs = some (k', lib', levs) →
      libBatch fs k lib (maskRecs m recs) = some (k', lib', levs.filter (keepL m)) := by
  induction recs with
  | nil => intro k lib k' lib' levs h; simp only [libBatch] at h; cases h; rfl
  | cons r rest ih =>
    intro k lib k' lib' levs h
    simp only [libBatch] at h
    cases h1 : libRecord fs k lib r with
    | none => simp [h1] at h
    | some x =>
      obtain ⟨k1, l1, evs⟩ := x
      simp only [h1] at h
      cases h2 : libBatch fs k1 l1 rest with
      | none => simp [h2] at h
      | some y =>
        obtain ⟨k2, l2, more⟩ := y
        simp only [h2, Option.some.injEq, Prod.mk.injEq] at h
        obtain ⟨rfl, rfl, rfl⟩ := h
        have ih' := ih k1 l1 k2 l2 more h2
        by_cases hr : (r.flag == .ignored || m r.flag) = true
        · have : maskRecs m (r :: rest) = r :: maskRecs m rest := by simp [maskRecs, hr]
          rw [this]
          simp only [libBatch, h1, ih', List.filter_append, libRecord_kept hb hr h1]
        · have hr' : (r.flag == .ignored || m r.flag) = false := by simpa using hr
          have : maskRecs m (r :: rest) = maskRecs m rest := by simp [maskRecs, hr']
          rw [this]
          obtain ⟨rfl, rfl, e3⟩ := libRecord_dropped hb hr' h1
          simp only [ih', List.filter_append, e3, List.nil_append]

/-! ### the buffer's grouping -/

theorem pairIn_filter {m : Flag → Bool} (hb : Book m) (t : LEv) :
    ∀ acc : List Grouped, pairIn t (acc.filter (keepG m)) = (pairIn t acc).map (fun l => l.filter (keepG m)) := by
  intro acc
  induction acc with
  | nil => rfl
  | cons g rest ih =>
    cases g with
    | one r =>
      by_cases hk : keepL m r = true
      · have : (Grouped.one r :: rest).filter (keepG m) = .one r :: rest.filter (keepG m) := by simp [keepG, hk]
        rw [this]
        simp only [pairIn]
        split
        · simp [List.filter, keepG, hk]
        · rw [ih]; cases pairIn t rest <;> simp [keepG, hk]
      · have hk' : keepL m r = false := by simpa using hk
        have : (Grouped.one r :: rest).filter (keepG m) = rest.filter (keepG m) := by simp [keepG, hk']
        rw [this, ih]
        simp only [pairIn]
        have hnf : (r.flag == Flag.movedFrom && r.cookie == t.cookie) = false := by
          cases hf : r.flag <;> simp
          simp [keepL, hf, hb.movedFrom] at hk'
        simp only [hnf, Bool.false_eq_true, if_false]
        cases pairIn t rest <;> simp [keepG, hk']
    | two f t' =>
      have : (Grouped.two f t' :: rest).filter (keepG m) = .two f t' :: rest.filter (keepG m) := rfl
      rw [this]
      simp only [pairIn]
      rw [ih]
      cases pairIn t rest with
      | none => rfl
      | some l => simp [List.filter, keepG]

def groupStep (acc : List Grouped) (e : LEv) : List Grouped :=
  if e.flag == .movedTo then
    match pairIn e acc with
    | some g => g
    | none => acc ++ [.one e]
  else acc ++ [.one e]

theorem group_eq_foldl (evs : List LEv) : group evs = evs.foldl groupStep [] := rfl

theorem groupStep_filter {m : Flag → Bool} (hb : Book m) (acc : List Grouped) (e : LEv) :
    (if keepL m e then groupStep (acc.filter (keepG m)) e else acc.filter (keepG m)) =
      (groupStep acc e).filter (keepG m) := by
  by_cases hk : keepL m e = true
  · simp only [hk, if_true, groupStep]
    split
    · rw [pairIn_filter hb]
      cases pairIn e acc with
      | none => simp [keepG, hk]
      | some g => simp
    · simp [keepG, hk]
  · have hk' : keepL m e = false := by simpa using hk
    have hnt : (e.flag == Flag.movedTo) = false := by
      cases hf : e.flag <;> simp
      simp [keepL, hf, hb.movedTo] at hk'
    simp [hk', groupStep, hnt, keepG]

theorem group_filter {m : Flag → Bool} (hb : Book m) (levs : List LEv) :
    group (levs.filter (keepL m)) = (group levs).filter (keepG m) := by
  rw [group_eq_foldl, group_eq_foldl]
  have : ∀ acc : List Grouped,
      (levs.filter (keepL m)).foldl groupStep (acc.filter (keepG m)) = (levs.foldl groupStep acc).filter (keepG m) := by
    induction levs with
    | nil => intro acc; rfl
    | cons e rest ih =>
      intro acc
      simp only [List.foldl_cons]
      rw [← ih (groupStep acc e), ← groupStep_filter hb]
      by_cases hk : keepL m e = true
      · simp [List.filter, hk]
      · have hk' : keepL m e = false := by simpa using hk
        simp [List.filter, hk']
  simpa using this []

theorem gsOf_filter {m : Flag → Bool} (hb : Book m) (levs : List LEv) :
    gsOf (levs.filter (keepL m)) = (gsOf levs).filter (keepG m) := by
  unfold gsOf
  rw [group_filter hb, List.filter_filter, List.filter_filter]
  congr 1; funext g; exact Bool.and_comm _ _

theorem filterMap_filter_of {α β : Type} {f : α → Option β} {p : α → Bool} (h : ∀ a, p a = false → f a = none)
    (l : List α) : (l.filter p).filterMap f = l.filterMap f := by
  induction l with
  | nil => rfl
  | cons a rest ih =>
    by_cases hp : p a = true
    · simp [List.filter, hp, List.filterMap_cons, ih]
    · have hp' : p a = false := by simpa using hp
      simp [List.filter, hp', List.filterMap_cons, h a hp', ih]

theorem movedOut_filter {m : Flag → Bool} (hb : Book m) (gs : List Grouped) :
    movedOut (gs.filter (keepG m)) = movedOut gs := by
  unfold movedOut
  apply filterMap_filter_of
  intro g hg
  cases g with
  | two f t => simp [keepG] at hg
  | one e =>
    have hnf : (e.flag == Flag.movedFrom) = false := by
      cases hf : e.flag <;> simp
      simp [keepG, keepL, hf, hb.movedFrom] at hg
    simp [hnf]

/-! ### the emitter -/

theorem emitAll_filter {m : Flag → Bool} {acc : EvClass → Bool} (hc : Complete m acc)
    (fs : FS) (recursive full : Bool) (gs : List Grouped)
    (hnoign : ∀ g ∈ gs, Grouped.keep g = true) :
    (emitAll fs recursive full (gs.filter (keepG m))).2 = (emitAll fs recursive full gs).2 ∧
    (emitAll fs recursive full (gs.filter (keepG m))).1.filter (fun e => acc e.cls) =
      (emitAll fs recursive full gs).1.filter (fun e => acc e.cls) := by
  unfold emitAll
  have : ∀ (a a' : List PEv × Bool), a'.2 = a.2 → a'.1.filter (fun e => acc e.cls) = a.1.filter (fun e => acc e.cls) →
      ((gs.filter (keepG m)).foldl (emitStep fs recursive full) a').2 = (gs.foldl (emitStep fs recursive full) a).2 ∧
      ((gs.filter (keepG m)).foldl (emitStep fs recursive full) a').1.filter (fun e => acc e.cls) =
        (gs.foldl (emitStep fs recursive full) a).1.filter (fun e => acc e.cls) := by
    induction gs with
    | nil => intro a a' h1 h2; exact ⟨h1, h2⟩
    | cons g rest ih =>
      intro a a' h1 h2
      have hrest : ∀ g ∈ rest, Grouped.keep g = true := fun g hg => hnoign g (List.mem_cons_of_mem _ hg)
      by_cases hk : keepG m g = true
      · simp only [List.filter, hk, List.foldl_cons]
        apply ih hrest
        · simp only [emitStep, h1]; split <;> simp [*]
        · simp only [emitStep, h1]; split
          · exact h2
          · simp [List.filter_append, h2]
      · have hk' : keepG m g = false := by simpa using hk
        simp only [List.filter, hk', List.foldl_cons]
        cases g with
        | two f t => simp [keepG] at hk'
        | one e =>
          have hkeep := hnoign (.one e) (List.mem_cons_self ..)
          have hne : e.flag ≠ .ignored := by simpa [Grouped.keep] using hkeep
          have hm : m e.flag = false := by
            simp only [keepG, keepL, Bool.or_eq_false_iff] at hk'; exact hk'.2
          obtain ⟨c1, c2⟩ := hc fs recursive full e hm hne
          apply ih hrest
          · simp only [emitStep]; split <;> simp [*]
          · simp only [emitStep]; split
            · exact h2
            · rw [List.filter_append, ← h2]
              have : (emit fs recursive full (Grouped.one e)).1.filter (fun e => acc e.cls) = [] := by
                rw [List.filter_eq_nil_iff]; intro x hx; simp [c1 x hx]
              simp [this]
  exact this ([], false) ([], false) rfl rfl

/-! ### one drained operation, whole histories -/

theorem gsOf_keep (levs : List LEv) : ∀ g ∈ gsOf levs, Grouped.keep g = true := by
  intro g hg; unfold gsOf at hg; exact (List.mem_filter.1 hg).2

theorem opF_eq {m : Flag → Bool} {acc : EvClass → Bool} (hb : Book m) (hc : Complete m acc) (s : Sys) (op : Op)
    (hnc : (s.op op).1.crashed = false) :
    s.opF m acc op = ((s.op op).1, (s.op op).2.filter (fun e => acc e.cls)) := by
  unfold Sys.opF Sys.op at *
  rcases hk : kernelOp s.fs s.k op with ⟨fs1, k1, recs⟩
  simp only [hk] at hnc ⊢
  split
  · simp
  · next hst =>
    simp only [hst] at hnc
    cases h1 : libBatch fs1 k1 s.lib recs with
    | none => simp [h1] at hnc
    | some x =>
      obtain ⟨k2, lib2, levs⟩ := x
      simp only [libBatch_mask hb fs1 recs k1 s.lib k2 lib2 levs h1, gsOf_filter hb, movedOut_filter hb]
      obtain ⟨e1, e2⟩ := emitAll_filter hc fs1 lib2.recursive s.full (gsOf levs) (gsOf_keep levs)
      rcases hE : emitAll fs1 lib2.recursive s.full (gsOf levs) with ⟨evs, stop⟩
      rcases hE' : emitAll fs1 lib2.recursive s.full ((gsOf levs).filter (keepG m)) with ⟨evs', stop'⟩
      rw [hE, hE'] at e1 e2
      simp only at e1 e2
      subst e1
      simp only
      cases forgetAll fs1 k2 lib2 (if lib2.recursive = true then movedOut (gsOf levs) else []) with
      | none => simp [e2]
      | some y => obtain ⟨k3, lib3⟩ := y; simp [e2]

theorem crashed_op (s : Sys) (op : Op) (h : s.crashed = true) : (s.op op).1.crashed = true := by
  unfold Sys.op
  rcases kernelOp s.fs s.k op with ⟨fs1, k1, recs⟩
  simp [h]

theorem crashed_run (s : Sys) (ops : List Op) (h : s.crashed = true) : (s.run ops).1.crashed = true := by
  induction ops generalizing s with
  | nil => exact h
  | cons op rest ih =>
    simp only [Sys.run]
    exact ih _ (crashed_op s op h)

/-- whole histories: as long as the unfiltered observer's reader does not die, the filtered observer goes through the
    same states and delivers the unfiltered stream restricted to the accepted classes, operation by operation -/
theorem runF_eq {m : Flag → Bool} {acc : EvClass → Bool} (hb : Book m) (hc : Complete m acc) (s : Sys) (ops : List Op)
    (hnc : (s.run ops).1.crashed = false) :
    s.runF m acc ops = ((s.run ops).1, (s.run ops).2.map (fun evs => evs.filter (fun e => acc e.cls))) := by
  induction ops generalizing s with
  | nil => rfl
  | cons op rest ih =>
    simp only [Sys.run] at hnc ⊢
    have h1 : (s.op op).1.crashed = false := by
      cases hcr : (s.op op).1.crashed
      · rfl
      · rw [crashed_run _ rest hcr] at hnc; cases hnc
    simp only [Sys.runF, opF_eq hb hc s op h1, ih _ hnc, List.map_cons]

/-- `Complete` for a union of filters: the mask is the union of the masks, the accepted classes the union of the classes -/
theorem Complete.union {m1 m2 : Flag → Bool} {a1 a2 : EvClass → Bool} (h1 : Complete m1 a1) (h2 : Complete m2 a2) :
    Complete (fun f => m1 f || m2 f) (fun c => a1 c || a2 c) := by
  intro fs recursive full e hm hne
  simp only [Bool.or_eq_false_iff] at hm
  obtain ⟨x1, y1⟩ := h1 fs recursive full e hm.1 hne
  obtain ⟨x2, _⟩ := h2 fs recursive full e hm.2 hne
  exact ⟨fun ev hev => by simp [x1 ev hev, x2 ev hev], y1⟩

theorem Book.union_left {m1 m2 : Flag → Bool} (h1 : Book m1) : Book (fun f => m1 f || m2 f) :=
  ⟨by simp [h1.create], by simp [h1.movedFrom], by simp [h1.movedTo], by simp [h1.deleteSelf]⟩

end WD.Pipe

namespace WD.Pipe

/-- the classes `emit` derives from a record of one of the six kinds a mask may leave out -/
def classesOf (fl : Flag) (d : Bool) : List EvClass :=
  match fl with
  | .attrib | .modify => [if d then .DirModifiedEvent else .FileModifiedEvent]
  | .delete => [if d then .DirDeletedEvent else .FileDeletedEvent, .DirModifiedEvent]
  | .open => if d then [] else [.FileOpenedEvent]
  | .closeWrite => if d then [] else [.FileClosedEvent, .DirModifiedEvent]
  | .closeNoWrite => if d then [] else [.FileClosedNoWriteEvent]
  | _ => []

def optionalFlags : List Flag := [.attrib, .modify, .delete, .open, .closeWrite, .closeNoWrite]

theorem emit_optional (fs : FS) (recursive full : Bool) (e : LEv) (h : e.flag ∈ optionalFlags) :
    (emit fs recursive full (.one e)).1.map (·.cls) = classesOf e.flag e.isDir ∧
    (emit fs recursive full (.one e)).2 = false := by
  simp only [optionalFlags, List.mem_cons, List.mem_nil_iff, or_false] at h
  rcases h with h | h | h | h | h | h <;> simp only [emit, h, classesOf] <;> cases e.isDir <;> simp [mkEv]

/-- the decidable check behind `Complete` -/
def completeB (m : Flag → Bool) (acc : EvClass → Bool) : Bool :=
  optionalFlags.all (fun fl => m fl || ((classesOf fl true).all (fun c => !acc c) && (classesOf fl false).all (fun c => !acc c)))

theorem Complete_of_check {m : Flag → Bool} {acc : EvClass → Bool} (hb : Book m) (h : completeB m acc = true) :
    Complete m acc := by
  intro fs recursive full e hm hne
  have hopt : e.flag ∈ optionalFlags := by
    cases hf : e.flag <;> simp [optionalFlags] <;> simp_all [hb.create, hb.movedFrom, hb.movedTo, hb.deleteSelf]
  obtain ⟨c1, c2⟩ := emit_optional fs recursive full e hopt
  refine ⟨?_, c2⟩
  intro ev hev
  have hcls : ev.cls ∈ classesOf e.flag e.isDir := by rw [← c1]; exact List.mem_map_of_mem hev
  have := List.all_eq_true.1 h e.flag hopt
  simp only [hm, Bool.false_or, Bool.and_eq_true] at this
  cases hd : e.isDir
  · rw [hd] at hcls; simpa using List.all_eq_true.1 this.2 ev.cls hcls
  · rw [hd] at hcls; simpa using List.all_eq_true.1 this.1 ev.cls hcls

end WD.Pipe
