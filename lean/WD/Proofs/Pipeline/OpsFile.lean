/- operations on files under a recursive watch: create, write, chmod, unlink -/
import WD.Proofs.Pipeline.Step
set_option linter.unusedSimpArgs false
namespace WD.Pipe

/-- the common shape: the kernel leaves its watches alone, queues records that do not touch the maps
    (none of them a move half), and no directory of the tree changes -/
structure SimpleOp (s : Sys) (op : Op) (fs1 : FS) (recs : List NRec) (path : NRec → P) : Prop where
  hk : kernelOp s.fs s.k op = (fs1, s.k, recs)
  hr : ∀ r ∈ recs, simpleFlag true r.flag r.isDir = true ∧ lookupW s.lib.pathForWd r.wd = some (path r)
  hwf : fs1.WF
  hdirs : ∀ e, inTreeDir e = true → (e ∈ fs1.ents ↔ e ∈ s.fs.ents)
  hnostop : ∀ r ∈ recs, (emit fs1 true s.full (.one (r.toLEv (path r)))).2 = false
  hev : recs.flatMap (fun r => (emit fs1 true s.full (.one (r.toLEv (path r)))).1) = (contract s.fs true s.full op).1
  hst : (contract s.fs true s.full op).2 = false

theorem step_simple (s : Sys) (op : Op) (inv : InvRec s.fs s.k s.lib) (hs : s.stopped = false) (hc : s.crashed = false)
    (fs1 : FS) (recs : List NRec) (path : NRec → P) (h : SimpleOp s op fs1 recs path) : StepRec s op := by
  obtain ⟨hk, hr, hwf, hdirs, hnostop, hev, hst⟩ := h
  have hl : libBatch fs1 s.k s.lib recs = some (s.k, s.lib, recs.map (fun r => r.toLEv (path r))) :=
    libBatch_simple fs1 s.k s.lib recs path (by rw [inv.isRec]; exact hr)
  have hflags : ∀ e ∈ recs.map (fun r => r.toLEv (path r)), e.flag ≠ .movedTo ∧ e.flag ≠ .ignored := by
    intro e he
    obtain ⟨r, hr1, rfl⟩ := List.mem_map.mp he
    have := (hr r hr1).1
    simp only [NRec.toLEv]
    constructor <;> intro hf <;> simp [simpleFlag, hf] at this
  have hgs := gsOf_simple _ hflags
  have hmo : movedOut (gsOf (recs.map (fun r => r.toLEv (path r)))) = [] := by
    apply movedOut_nil_of
    intro g hg
    rw [hgs] at hg
    obtain ⟨e, he, rfl⟩ := List.mem_map.mp hg
    obtain ⟨r, hr1, rfl⟩ := List.mem_map.mp he
    simp only [NRec.toLEv]
    intro hh
    have := (hr r hr1).1
    simp [simpleFlag, hh.1] at this
  have hf : forgetAll fs1 s.k s.lib (if s.lib.recursive then movedOut (gsOf (recs.map (fun r => r.toLEv (path r)))) else []) = some (s.k, s.lib) := by
    rw [hmo]; simp [forgetAll_nil]
  have hop := Sys.op_eq s op hs hc hk hl hf
  have hem : emitAll fs1 s.lib.recursive s.full (gsOf (recs.map (fun r => r.toLEv (path r)))) =
      ((contract s.fs true s.full op).1, false) := by
    rw [hgs, inv.isRec, emitAll_nostop]
    · rw [← hev]; simp [List.flatMap_map]
    · intro g hg
      obtain ⟨e, he, rfl⟩ := List.mem_map.mp hg
      obtain ⟨r, hr1, rfl⟩ := List.mem_map.mp he
      exact hnostop r hr1
  rw [hem] at hop
  refine ⟨by rw [hop], by rw [hop, hst], by rw [hop]; exact hc, by rw [hop], ?_⟩
  intro _
  rw [hop]
  exact inv.fs_change hwf hdirs

theorem validOp_create {fs : FS} {p : P} (h : validOp fs (.create p) = true) :
    2 ≤ p.length ∧ fs.exists p = false ∧ fs.isDir (parentOf p) = true := by
  have := h; simp [validOp] at this; exact ⟨this.1.1, this.1.2, this.2⟩

theorem simple_create (s : Sys) (p : P) (inv : InvRec s.fs s.k s.lib)
    (hv : validOp s.fs (.create p) = true) : ∃ fs1 recs path, SimpleOp s (.create p) fs1 recs path := by
  obtain ⟨hp, hne, hpar⟩ := validOp_create hv
  have hpb := snoc_parent_base (ne_nil_of_two_le hp)
  have hdirs : ∀ e, inTreeDir e = true → (e ∈ (s.fs.add p false).ents ↔ e ∈ s.fs.ents) := by
    intro e he; rw [FS.mem_add]
    constructor
    · rintro (h | h)
      · exact h
      · subst h; simp [inTreeDir] at he
    · exact Or.inl
  rcases inv.parent_recs p with ⟨hw, wd, h1, _, hrec⟩ | ⟨hw, hrec⟩
  · refine ⟨(s.fs.add p false), [⟨wd, .create, false, 0, some (baseName p)⟩, ⟨wd, .open, false, 0, some (baseName p)⟩, ⟨wd, .closeWrite, false, 0, some (baseName p)⟩], (fun _ => parentOf p), ⟨?_, ?_, ?_, ?_, ?_, ?_, ?_⟩⟩
    · simp [kernelOp, hrec, FS.add]
    · intro r hr; simp at hr; rcases hr with rfl | rfl | rfl <;> simp [simpleFlag, h1]
    · exact inv.wf.add hp hne hpar false
    · exact hdirs
    · intro r hr; simp at hr; rcases hr with rfl | rfl | rfl <;> simp [emit, NRec.toLEv]
    · simp [contract, hw, emit, NRec.toLEv, NRec.src, hpb, dirMod, mkEv]
    · simp [contract]
  · refine ⟨(s.fs.add p false), [], (fun _ => parentOf p), ⟨?_, ?_, ?_, ?_, ?_, ?_, ?_⟩⟩
    · simp [kernelOp, hrec, FS.add]
    · simp
    · exact inv.wf.add hp hne hpar false
    · exact hdirs
    · simp
    · simp [contract, hw]
    · simp [contract]

end WD.Pipe

namespace WD.Pipe

theorem simple_write (s : Sys) (p : P) (inv : InvRec s.fs s.k s.lib)
    (hv : validOp s.fs (.write p) = true) : ∃ fs1 recs path, SimpleOp s (.write p) fs1 recs path := by
  have hv' : s.fs.isFile p = true := by simpa [validOp] using hv
  obtain ⟨f, hf, _⟩ := FS.isFile_iff.mp hv'
  have hfm := FS.find?_some hf
  have hpb := snoc_parent_base (hfm.2 ▸ inv.wf.path_ne_nil hfm.1)
  rcases inv.parent_recs p with ⟨hw, wd, h1, _, hrec⟩ | ⟨hw, hrec⟩
  · refine ⟨s.fs, [⟨wd, .open, false, 0, some (baseName p)⟩, ⟨wd, .modify, false, 0, some (baseName p)⟩, ⟨wd, .closeWrite, false, 0, some (baseName p)⟩], (fun _ => parentOf p), ⟨?_, ?_, ?_, ?_, ?_, ?_, ?_⟩⟩
    · simp [kernelOp, hrec]
    · intro r hr; simp at hr; rcases hr with rfl | rfl | rfl <;> simp [simpleFlag, h1]
    · exact inv.wf
    · intro e _; rfl
    · intro r hr; simp at hr; rcases hr with rfl | rfl | rfl <;> simp [emit, NRec.toLEv]
    · simp [contract, hw, emit, NRec.toLEv, NRec.src, hpb, dirMod, mkEv]
    · simp [contract]
  · refine ⟨s.fs, [], (fun _ => parentOf p), ⟨?_, ?_, ?_, ?_, ?_, ?_, ?_⟩⟩
    · simp [kernelOp, hrec]
    · simp
    · exact inv.wf
    · intro e _; rfl
    · simp
    · simp [contract, hw]
    · simp [contract]

theorem simple_unlink (s : Sys) (p : P) (inv : InvRec s.fs s.k s.lib)
    (hv : validOp s.fs (.unlink p) = true) : ∃ fs1 recs path, SimpleOp s (.unlink p) fs1 recs path := by
  have hv' : s.fs.isFile p = true := by simpa [validOp] using hv
  obtain ⟨f, hf, hfile⟩ := FS.isFile_iff.mp hv'
  have hfm := FS.find?_some hf
  have hne : p ≠ [] := hfm.2 ▸ inv.wf.path_ne_nil hfm.1
  have hpb := snoc_parent_base hne
  have hp2 : 2 ≤ p.length := by
    rcases inv.wf.parent hfm.1 with h | h | h
    · have := inv.wf.rootW; rw [← h, hfm.2] at this
      obtain ⟨d, hd, hdd⟩ := FS.isDir_iff.mp this; rw [hf] at hd; cases hd; rw [hfile] at hdd; cases hdd
    · have := inv.wf.rootO; rw [← h, hfm.2] at this
      obtain ⟨d, hd, hdd⟩ := FS.isDir_iff.mp this; rw [hf] at hd; cases hd; rw [hfile] at hdd; cases hdd
    · rw [← hfm.2]; exact h.1
  have hex : s.fs.exists p = true := FS.exists_iff.mpr ⟨f, hf⟩
  have hwf : (s.fs.del p).WF := inv.wf.del hp2 (inv.wf.file_leaf hf hfile)
  have hdirs : ∀ e, inTreeDir e = true → (e ∈ (s.fs.del p).ents ↔ e ∈ s.fs.ents) := by
    intro e he; rw [FS.mem_del]
    constructor
    · exact fun h => h.1
    · intro h; refine ⟨h, ?_⟩
      intro hp; have := inv.wf.path_inj h hfm.1 (hp.trans hfm.2.symm); subst this
      simp [inTreeDir, hfile] at he
  rcases inv.parent_recs p with ⟨hw, wd, h1, _, hrec⟩ | ⟨hw, hrec⟩
  · refine ⟨(s.fs.del p), [⟨wd, .delete, false, 0, some (baseName p)⟩], (fun _ => parentOf p), ⟨?_, ?_, ?_, ?_, ?_, ?_, ?_⟩⟩
    · simp [kernelOp, hf, removeEntry, hfile, hfm.2, hrec, FS.del]
    · intro r hr; simp at hr; subst hr; simp [simpleFlag, h1]
    · exact hwf
    · exact hdirs
    · intro r hr; simp at hr; subst hr; simp [emit, NRec.toLEv]
    · simp [contract, hw, hex, emit, NRec.toLEv, NRec.src, hpb, dirMod, mkEv, evDeleted]
    · simp [contract]
  · refine ⟨(s.fs.del p), [], (fun _ => parentOf p), ⟨?_, ?_, ?_, ?_, ?_, ?_, ?_⟩⟩
    · simp [kernelOp, hf, removeEntry, hfile, hfm.2, hrec, FS.del]
    · simp
    · exact hwf
    · exact hdirs
    · simp
    · simp [contract, hw]
    · simp [contract]

theorem simple_chmod (s : Sys) (p : P) (inv : InvRec s.fs s.k s.lib)
    (hv : validOp s.fs (.chmod p) = true) : ∃ fs1 recs path, SimpleOp s (.chmod p) fs1 recs path := by
  have hv' : 2 ≤ p.length ∧ s.fs.exists p = true := by simpa [validOp] using hv
  obtain ⟨e, he⟩ := FS.exists_iff.mp hv'.2
  have hem := FS.find?_some he
  have hpb := snoc_parent_base (ne_nil_of_two_le hv'.1)
  -- the record on the watched object itself (directories of the tree only)
  have hself : (e.isDir = true ∧ watchedDir s.fs true p = true ∧ ∃ wd, lookupW s.lib.pathForWd wd = some p ∧
        s.k.onSelf e.ino .attrib true = [⟨wd, .attrib, true, 0, none⟩]) ∨
      ((e.isDir && watchedDir s.fs true p) = false ∧ (if e.isDir then s.k.onSelf e.ino .attrib true else []) = []) := by
    cases hd : e.isDir with
    | false => right; simp
    | true =>
      cases ht : inTreeDir e with
      | true =>
        left
        obtain ⟨wd, h1, _, h2, _⟩ := inv.watched hem.1 ht trivial
        rw [hem.2] at h2
        exact ⟨rfl, watchedDir_rec_iff.mpr ⟨e, he, ht⟩, wd, h2, onSelf_some h1 _ _⟩
      | false =>
        right
        have hw : watchedDir s.fs true p = false := by
          cases hw : watchedDir s.fs true p with
          | false => rfl
          | true =>
            obtain ⟨e', he', hte⟩ := watchedDir_rec_iff.mp hw
            rw [he] at he'; cases he'; rw [ht] at hte; cases hte
        simp [hw, onSelf_none (inv.unwatched hem.1 ht)]
  have pathOf : NRec → P := fun r => match r.name with | none => p | some _ => parentOf p
  rcases inv.parent_recs p with ⟨hw, wd, h1, _, hrec⟩ | ⟨hw, hrec⟩ <;> rcases hself with ⟨hd, hws, wd', h1', hrs⟩ | ⟨hws, hrs⟩
  · refine ⟨s.fs, [⟨wd', .attrib, true, 0, none⟩, ⟨wd, .attrib, e.isDir, 0, some (baseName p)⟩], (fun r => match r.name with | none => p | some _ => parentOf p), ⟨?_, ?_, ?_, ?_, ?_, ?_, ?_⟩⟩
    · simp [kernelOp, he, hd, hrs, hrec]
    · intro r hr; simp at hr; rcases hr with rfl | rfl <;> simp [simpleFlag, h1, h1']
    · exact inv.wf
    · intro _ _; rfl
    · intro r hr; simp at hr; rcases hr with rfl | rfl <;> simp [emit, NRec.toLEv]
    · simp [contract, he, hw, hd, hws, emit, NRec.toLEv, NRec.src, hpb, mkEv]
    · simp [contract, he]
  · refine ⟨s.fs, [⟨wd, .attrib, e.isDir, 0, some (baseName p)⟩], (fun _ => parentOf p), ⟨?_, ?_, ?_, ?_, ?_, ?_, ?_⟩⟩
    · simp only [kernelOp, he, hrs, hrec, List.nil_append]
    · intro r hr; simp at hr; subst hr; simp [simpleFlag, h1]
    · exact inv.wf
    · intro _ _; rfl
    · intro r hr; simp at hr; subst hr; simp [emit, NRec.toLEv]
    · simp only [contract, he, hw, hws]
      cases e.isDir <;> simp [emit, NRec.toLEv, NRec.src, hpb, mkEv]
    · simp [contract, he]
  · refine ⟨s.fs, [⟨wd', .attrib, true, 0, none⟩], (fun _ => p), ⟨?_, ?_, ?_, ?_, ?_, ?_, ?_⟩⟩
    · simp [kernelOp, he, hd, hrs, hrec]
    · intro r hr; simp at hr; subst hr; simp [simpleFlag, h1']
    · exact inv.wf
    · intro _ _; rfl
    · intro r hr; simp at hr; subst hr; simp [emit, NRec.toLEv]
    · simp [contract, he, hw, hd, hws, emit, NRec.toLEv, NRec.src, mkEv]
    · simp [contract, he]
  · refine ⟨s.fs, [], (fun _ => p), ⟨?_, ?_, ?_, ?_, ?_, ?_, ?_⟩⟩
    · simp only [kernelOp, he, hrs, hrec, List.nil_append]
    · simp
    · exact inv.wf
    · intro _ _; rfl
    · simp
    · simp [contract, he, hw, hws]
    · simp [contract, he]

theorem step_create (s : Sys) (p : P) (inv : InvRec s.fs s.k s.lib) (hs : s.stopped = false) (hc : s.crashed = false)
    (hv : validOp s.fs (.create p) = true) : StepRec s (.create p) := by
  obtain ⟨fs1, recs, path, h⟩ := simple_create s p inv hv; exact step_simple s _ inv hs hc fs1 recs path h

theorem step_write (s : Sys) (p : P) (inv : InvRec s.fs s.k s.lib) (hs : s.stopped = false) (hc : s.crashed = false)
    (hv : validOp s.fs (.write p) = true) : StepRec s (.write p) := by
  obtain ⟨fs1, recs, path, h⟩ := simple_write s p inv hv; exact step_simple s _ inv hs hc fs1 recs path h

theorem step_unlink (s : Sys) (p : P) (inv : InvRec s.fs s.k s.lib) (hs : s.stopped = false) (hc : s.crashed = false)
    (hv : validOp s.fs (.unlink p) = true) : StepRec s (.unlink p) := by
  obtain ⟨fs1, recs, path, h⟩ := simple_unlink s p inv hv; exact step_simple s _ inv hs hc fs1 recs path h

theorem step_chmod (s : Sys) (p : P) (inv : InvRec s.fs s.k s.lib) (hs : s.stopped = false) (hc : s.crashed = false)
    (hv : validOp s.fs (.chmod p) = true) : StepRec s (.chmod p) := by
  obtain ⟨fs1, recs, path, h⟩ := simple_chmod s p inv hv; exact step_simple s _ inv hs hc fs1 recs path h

end WD.Pipe
