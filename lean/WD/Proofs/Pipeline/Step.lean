/- what one drained operation must establish; file-system changes that keep the invariant -/
import WD.Proofs.Pipeline.Emit
set_option linter.unusedSimpArgs false
namespace WD.Pipe

/-- the result of one drained operation under a recursive watch: the delivered events are the contract's,
    nothing crashed, and the invariant holds again (unless the emitter stopped: the root is gone) -/
structure StepRec (s : Sys) (op : Op) : Prop where
  events : (s.op op).2 = (contract s.fs true s.full op).1
  stop : (s.op op).1.stopped = (contract s.fs true s.full op).2
  ncrash : (s.op op).1.crashed = false
  full : (s.op op).1.full = s.full
  inv : (contract s.fs true s.full op).2 = false → InvRec (s.op op).1.fs (s.op op).1.k (s.op op).1.lib

/-- the maps and watches stay valid when the file system changes without touching a directory of the tree -/
theorem InvOn.fs_change {cov : Ent → Prop} {z : Option Nat} {fs fs1 : FS} {k : Kern} {lib : Lib} (inv : InvOn cov z fs k lib) (hwf : fs1.WF)
    (h : ∀ e, inTreeDir e = true → (e ∈ fs1.ents ↔ e ∈ fs.ents)) : InvOn cov z fs1 k lib where
  wf := hwf
  isRec := inv.isRec
  kwd := inv.kwd
  kino := inv.kino
  klt := inv.klt
  good := by
    intro w hw
    obtain ⟨e, he, h1, h2, h3⟩ := inv.good w hw
    exact ⟨e, (h e h2).mpr he, h1, h2, h3⟩
  cover := fun e he hd hc => inv.cover e ((h e hd).mp he) hd hc
  pfwDom := inv.pfwDom
  zlt := inv.zlt
  zdead := inv.zdead
  wfpInv := inv.wfpInv
  wfpNodup := inv.wfpNodup
  pfwNodup := inv.pfwNodup
  cookies := inv.cookies

/- ---------------- adding one entry ---------------- -/

def FS.add (fs : FS) (p : P) (d : Bool) : FS := { ents := fs.ents ++ [⟨p, d, fs.nextIno⟩], nextIno := fs.nextIno + 1 }

theorem FS.find?_add (fs : FS) (p : P) (d : Bool) (q : P) :
    (fs.add p d).find? q = (fs.find? q).or (if p = q then some ⟨p, d, fs.nextIno⟩ else none) := by
  unfold FS.find? FS.add
  simp only [List.find?_append, List.find?_cons, List.find?_nil]
  by_cases h : p = q
  · simp [h]
  · have hb : (p == q) = false := by simp [h]
    simp [h, hb]

theorem FS.isDir_add_of_isDir {fs : FS} {p q : P} {d : Bool} (h : fs.isDir q = true) : (fs.add p d).isDir q = true := by
  obtain ⟨e, he, hd⟩ := FS.isDir_iff.mp h
  exact FS.isDir_iff.mpr ⟨e, by rw [FS.find?_add, he]; rfl, hd⟩

theorem FS.WF.add {fs : FS} (hwf : fs.WF) {p : P} (hp : 2 ≤ p.length) (hne : fs.exists p = false)
    (hpar : fs.isDir (parentOf p) = true) (d : Bool) : (fs.add p d).WF := by
  have hnone : fs.find? p = none := by
    cases h : fs.find? p with
    | none => rfl
    | some e => simp [FS.exists, h] at hne
  rw [FS.find?_none] at hnone
  refine ⟨?_, ?_, ?_, FS.isDir_add_of_isDir hwf.rootW, FS.isDir_add_of_isDir hwf.rootO, ?_⟩
  · simp only [FS.add, List.map_append, List.map_cons, List.map_nil]
    refine List.nodup_append.mpr ⟨hwf.paths, by simp, ?_⟩
    intro a ha b hb; simp at hb; subst hb
    obtain ⟨e, he, rfl⟩ := List.mem_map.mp ha
    exact hnone e he
  · simp only [FS.add, List.map_append, List.map_cons, List.map_nil]
    refine List.nodup_append.mpr ⟨hwf.inos, by simp, ?_⟩
    intro a ha b hb; simp at hb; subst hb
    obtain ⟨e, he, rfl⟩ := List.mem_map.mp ha
    have := hwf.inoLt he; omega
  · intro e he
    simp only [FS.add, List.mem_append, List.mem_singleton] at he
    rcases he with he | he
    · have := hwf.2.2.1 e he; simp only [FS.add]; omega
    · subst he; simp only [FS.add]
      have : 0 < fs.nextIno := by
        obtain ⟨e, he, _⟩ := FS.isDir_iff.mp hwf.rootW
        have := hwf.inoLt (FS.find?_some he).1; omega
      omega
  · intro e he
    simp only [FS.add, List.mem_append, List.mem_singleton] at he
    rcases he with he | he
    · rcases hwf.parent he with h | h | h
      · exact Or.inl h
      · exact Or.inr (Or.inl h)
      · exact Or.inr (Or.inr ⟨h.1, FS.isDir_add_of_isDir h.2⟩)
    · subst he; exact Or.inr (Or.inr ⟨hp, FS.isDir_add_of_isDir hpar⟩)

theorem FS.mem_add {fs : FS} {p : P} {d : Bool} {e : Ent} : e ∈ (fs.add p d).ents ↔ e ∈ fs.ents ∨ e = ⟨p, d, fs.nextIno⟩ := by
  simp [FS.add]

end WD.Pipe

namespace WD.Pipe
/- ---------------- removing one entry ---------------- -/

def FS.del (fs : FS) (p : P) : FS := { fs with ents := fs.ents.filter (fun x => x.path != p) }

theorem FS.mem_del {fs : FS} {p : P} {e : Ent} : e ∈ (fs.del p).ents ↔ e ∈ fs.ents ∧ e.path ≠ p := by
  simp [FS.del]

theorem FS.find?_del (fs : FS) (p q : P) : (fs.del p).find? q = if q = p then none else fs.find? q := by
  unfold FS.find? FS.del
  simp only [List.find?_filter]
  by_cases h : q = p
  · subst h
    simp only [if_true]
    rw [List.find?_eq_none]
    intro x _; simp
  · simp only [h, if_false]
    congr 1; funext x
    by_cases hx : x.path = q
    · simp [hx, h]
    · simp [hx]

theorem FS.isDir_del {fs : FS} {p q : P} (hq : q ≠ p) : (fs.del p).isDir q = fs.isDir q := by
  unfold FS.isDir; rw [FS.find?_del]; simp [hq]

/-- removing an entry nobody has as its parent -/
theorem FS.WF.del {fs : FS} (hwf : fs.WF) {p : P} (hp : 2 ≤ p.length)
    (hleaf : ∀ e ∈ fs.ents, parentOf e.path ≠ p ∨ e.path.length < 2) : (fs.del p).WF := by
  have hW : (["W"] : P) ≠ p := by intro h; subst h; simp at hp
  have hO : (["O"] : P) ≠ p := by intro h; subst h; simp at hp
  refine ⟨?_, ?_, ?_, ?_, ?_, ?_⟩
  · exact List.Nodup.sublist (List.Sublist.map _ List.filter_sublist) hwf.paths
  · exact List.Nodup.sublist (List.Sublist.map _ List.filter_sublist) hwf.inos
  · intro e he; exact hwf.2.2.1 e (FS.mem_del.mp he).1
  · rw [FS.isDir_del hW]; exact hwf.rootW
  · rw [FS.isDir_del hO]; exact hwf.rootO
  · intro e he
    have he' := FS.mem_del.mp he
    rcases hwf.parent he'.1 with h | h | h
    · exact Or.inl h
    · exact Or.inr (Or.inl h)
    · refine Or.inr (Or.inr ⟨h.1, ?_⟩)
      have : parentOf e.path ≠ p := by
        rcases hleaf e he'.1 with h1 | h1
        · exact h1
        · omega
      rw [FS.isDir_del this]; exact h.2

/-- a file has no children -/
theorem FS.WF.file_leaf {fs : FS} (hwf : fs.WF) {p : P} {f : Ent} (hf : fs.find? p = some f) (hfile : f.isDir = false) :
    ∀ e ∈ fs.ents, parentOf e.path ≠ p ∨ e.path.length < 2 := by
  intro e he
  rcases hwf.parent he with h | h | h
  · right; simp [h]
  · right; simp [h]
  · left; intro hpp
    rw [hpp] at h
    obtain ⟨d, hd, hdd⟩ := FS.isDir_iff.mp h.2
    rw [hf] at hd; cases hd; rw [hfile] at hdd; cases hdd

end WD.Pipe
