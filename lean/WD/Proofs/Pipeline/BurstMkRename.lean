/- "created and immediately renamed": `mkdir p; rename p q` issued back to back and read as one batch under a recursive
   watch (both parents directories of the tree, `q` a free name).  The CREATE record finds nothing to watch any more
   (ENOENT), the MOVED_TO finds no watch to re-key and watches the arrived directory instead. -/
import WD.Model.PipelineBurst
import WD.Proofs.Pipeline.RenameIn
import WD.Proofs.Pipeline.OpsDir
import WD.Proofs.Pipeline.BurstGrow
import WD.Proofs.Pipeline.ReplayRun
set_option linter.unusedSimpArgs false
namespace WD.Pipe

/-- a MOVED_TO right after its MOVED_FROM whose source was never watched (the directory was created moments ago): nothing
    to re-key, the arrived directory is watched now -/
theorem libRecord_to_paired_dir_nokey (fs : FS) (k : Kern) (lib : Lib) (wd : Nat) (c : Nat) (n : String) (wp ms : P)
    (hw : lookupW lib.pathForWd wd = some wp) (hkey : lookupP lib.wdForPath ms = none) (hrec : lib.recursive = true) :
    libRecord fs k (lib.remember c ms) ⟨wd, .movedTo, true, c, some n⟩ =
      some ((addTreeWatches fs k (lib.remember c ms) (wp ++ [n])).1, (addTreeWatches fs k (lib.remember c ms) (wp ++ [n])).2,
            [⟨wd, .movedTo, true, c, some n, wp ++ [n]⟩]) := by
  simp [libRecord, Lib.remember, hw, hkey, hrec]

theorem burst_mkdir_rename (s : Sys) (p q : P) (inv : InvRec s.fs s.k s.lib) (hs : s.stopped = false) (hc : s.crashed = false)
    (hv1 : validOp s.fs (.mkdir p) = true) (hq2 : 2 ≤ q.length) (hqf : s.fs.exists q = false) (hpq : p ≠ q)
    (hqpar : s.fs.isDir (parentOf q) = true)
    (hwp : watchedDir s.fs true (parentOf p) = true) (hwq : watchedDir s.fs true (parentOf q) = true) :
    (s.burst [.mkdir p, .rename p q]).2 =
      [mkEv .DirCreatedEvent p, dirMod p, mkEv .DirMovedEvent p q, dirMod p, dirMod q] ∧
    (s.burst [.mkdir p, .rename p q]).1.fs = s.fs.add q true ∧
    (s.burst [.mkdir p, .rename p q]).1.stopped = false ∧ (s.burst [.mkdir p, .rename p q]).1.crashed = false ∧
    InvRec (s.burst [.mkdir p, .rename p q]).1.fs (s.burst [.mkdir p, .rename p q]).1.k (s.burst [.mkdir p, .rename p q]).1.lib := by
  obtain ⟨hp, hne, hpar⟩ := validOp_mkdir hv1
  have hnnp := ne_nil_of_two_le hp
  have hnnq := ne_nil_of_two_le hq2
  have hpbp := snoc_parent_base hnnp
  have hpbq := snoc_parent_base hnnq
  have hfp : s.fs.find? p = none := by
    cases h : s.fs.find? p with
    | none => rfl
    | some e => simp [FS.exists, h] at hne
  have hfq : s.fs.find? q = none := by
    cases h : s.fs.find? q with
    | none => rfl
    | some e => simp [FS.exists, h] at hqf
  -- the two parents are watched
  obtain ⟨wdA, hA1, _, hrecA⟩ : ∃ wd, lookupW s.lib.pathForWd wd = some (parentOf p) ∧
      lookupP s.lib.wdForPath (parentOf p) = some wd ∧ ∀ f b c,
      s.k.onEntry ((s.fs.find? (parentOf p)).map (·.ino)) f b c (baseName p) = [⟨wd, f, b, c, some (baseName p)⟩] := by
    rcases inv.parent_recs p with ⟨_, wd, h1, h2, h3⟩ | ⟨hw, _⟩
    · exact ⟨wd, h1, h2, h3⟩
    · rw [hwp] at hw; cases hw
  obtain ⟨wdB, hB1, _, hrecB⟩ : ∃ wd, lookupW s.lib.pathForWd wd = some (parentOf q) ∧
      lookupP s.lib.wdForPath (parentOf q) = some wd ∧ ∀ f b c,
      s.k.onEntry ((s.fs.find? (parentOf q)).map (·.ino)) f b c (baseName q) = [⟨wd, f, b, c, some (baseName q)⟩] := by
    rcases inv.parent_recs q with ⟨_, wd, h1, h2, h3⟩ | ⟨hw, _⟩
    · exact ⟨wd, h1, h2, h3⟩
    · rw [hwq] at hw; cases hw
  -- the kernel side
  have hk1 : kernelOp s.fs s.k (.mkdir p) = (s.fs.add p true, s.k, [⟨wdA, .create, true, 0, some (baseName p)⟩]) := by
    simp [kernelOp, hrecA, FS.add]
  have hfind1p : (s.fs.add p true).find? p = some ⟨p, true, s.fs.nextIno⟩ := by rw [FS.find?_add, hfp]; simp
  have hfind1q : (s.fs.add p true).find? q = none := by rw [FS.find?_add, hfq]; simp [hpq]
  have hparent1 : ∀ x : P, s.fs.isDir x = true → (s.fs.add p true).find? x = s.fs.find? x := by
    intro x hx
    obtain ⟨e, he, _⟩ := FS.isDir_iff.mp hx
    rw [FS.find?_add, he]; rfl
  have hents : (s.fs.add p true).ents.map (fun (x : Ent) =>
      if x.path == p then { x with path := q }
      else if isUnder p x.path then { x with path := q ++ x.path.drop p.length } else x) =
      s.fs.ents ++ [⟨q, true, s.fs.nextIno⟩] := by
    simp only [FS.add, List.map_append, List.map_cons, List.map_nil, beq_self_eq_true, if_true]
    congr 1
    have hnd := inv.wf.no_descendants_of_missing hnnp hne
    have hex := exists_false_iff.mp hne
    conv => rhs; rw [← List.map_id s.fs.ents]
    apply List.map_congr_left
    intro x hx
    have h1 : (x.path == p) = false := by simpa using hex x hx
    simp [h1, hnd x hx]
  have hk2 : kernelOp (s.fs.add p true) s.k (.rename p q) =
      (s.fs.add q true, { s.k with nextCookie := s.k.nextCookie + 1 },
       [⟨wdA, .movedFrom, true, s.k.nextCookie, some (baseName p)⟩, ⟨wdB, .movedTo, true, s.k.nextCookie, some (baseName q)⟩]) := by
    simp only [kernelOp, hfind1p, hfind1q, hparent1 _ hpar, hparent1 _ hqpar, hrecA, hrecB, hents, List.append_nil]
    simp [FS.add]
  have hk : kernelOps s.fs s.k [.mkdir p, .rename p q] =
      (s.fs.add q true, { s.k with nextCookie := s.k.nextCookie + 1 },
       [⟨wdA, .create, true, 0, some (baseName p)⟩, ⟨wdA, .movedFrom, true, s.k.nextCookie, some (baseName p)⟩,
        ⟨wdB, .movedTo, true, s.k.nextCookie, some (baseName q)⟩]) := by
    simp [kernelOps, hk1, hk2]
  -- the library side, looking at the final file system
  have hFp : (s.fs.add q true).find? p = none := by rw [FS.find?_add, hfp]; simp [Ne.symm hpq]
  have hFq : (s.fs.add q true).find? q = some ⟨q, true, s.fs.nextIno⟩ := by rw [FS.find?_add, hfq]; simp
  have hwfF : (s.fs.add q true).WF := inv.wf.add hq2 hqf hqpar true
  have hdescq : (s.fs.add q true).descendants q = [] := by
    unfold FS.descendants
    rw [List.filter_eq_nil_iff]
    intro e he
    rcases FS.mem_add.mp he with he | he
    · simp [inv.wf.no_descendants_of_missing hnnq hqf e he]
    · subst he; simp [isUnder_irrefl]
  have hkey : lookupP s.lib.wdForPath p = none := by
    cases h : lookupP s.lib.wdForPath p with
    | none => rfl
    | some wd =>
      obtain ⟨e, he, hep, _⟩ := inv.key_dir h
      exact absurd hep (exists_false_iff.mp hne e he)
  have hr1 : libRecord (s.fs.add q true) { s.k with nextCookie := s.k.nextCookie + 1 } s.lib ⟨wdA, .create, true, 0, some (baseName p)⟩ =
      some ({ s.k with nextCookie := s.k.nextCookie + 1 }, s.lib, [⟨wdA, .create, true, 0, some (baseName p), p⟩]) := by
    rw [libRecord_create_dir _ _ _ wdA (baseName p) (parentOf p) hA1 inv.isRec, hpbp]
    simp [addWatch, hFp]
  have hr2 := libRecord_from (s.fs.add q true) { s.k with nextCookie := s.k.nextCookie + 1 } s.lib wdA true s.k.nextCookie (baseName p) (parentOf p) hA1
  rw [hpbp] at hr2
  have hunw : ({ s.k with nextCookie := s.k.nextCookie + 1 } : Kern).wdOfIno s.fs.nextIno = none := inv.fresh_unwatched
  have haw := addWatch_new (fs := s.fs.add q true) (k := { s.k with nextCookie := s.k.nextCookie + 1 })
    (lib := s.lib.remember s.k.nextCookie p) (e := ⟨q, true, s.fs.nextIno⟩) hFq hunw
  have hr3 : libRecord (s.fs.add q true) { s.k with nextCookie := s.k.nextCookie + 1 } (s.lib.remember s.k.nextCookie p)
      ⟨wdB, .movedTo, true, s.k.nextCookie, some (baseName q)⟩ =
      some (({ s.k with nextCookie := s.k.nextCookie + 1 } : Kern).withWatch s.fs.nextIno,
            (s.lib.remember s.k.nextCookie p).withWatch q s.k.nextWd, [⟨wdB, .movedTo, true, s.k.nextCookie, some (baseName q), q⟩]) := by
    have hat : addTreeWatches (s.fs.add q true) { s.k with nextCookie := s.k.nextCookie + 1 } (s.lib.remember s.k.nextCookie p) q =
        (({ s.k with nextCookie := s.k.nextCookie + 1 } : Kern).withWatch s.fs.nextIno, (s.lib.remember s.k.nextCookie p).withWatch q s.k.nextWd) := by
      rw [addTreeWatches_eq, hFq, hdescq]
      simp only [Option.toList_some, List.filter_nil, List.append_nil, List.foldl_cons, List.foldl_nil, addStep]
      simp only at haw
      rw [haw]
    rw [libRecord_to_paired_dir_nokey _ _ _ wdB _ (baseName q) (parentOf q) p hB1 hkey inv.isRec, hpbq, hat]
  have hl : libBatch (s.fs.add q true) { s.k with nextCookie := s.k.nextCookie + 1 } s.lib
      [⟨wdA, .create, true, 0, some (baseName p)⟩, ⟨wdA, .movedFrom, true, s.k.nextCookie, some (baseName p)⟩,
       ⟨wdB, .movedTo, true, s.k.nextCookie, some (baseName q)⟩] =
      some (({ s.k with nextCookie := s.k.nextCookie + 1 } : Kern).withWatch s.fs.nextIno,
            (s.lib.remember s.k.nextCookie p).withWatch q s.k.nextWd,
            [⟨wdA, .create, true, 0, some (baseName p), p⟩, ⟨wdA, .movedFrom, true, s.k.nextCookie, some (baseName p), p⟩,
             ⟨wdB, .movedTo, true, s.k.nextCookie, some (baseName q), q⟩]) := by
    rw [libBatch_cons, hr1]
    simp only
    rw [libBatch_cons, hr2]
    simp only
    rw [libBatch_cons, hr3]
    simp [libBatch_nil]
  -- grouping: the CREATE alone, the two halves of the move as one pair
  have hgs : gsOf [(⟨wdA, .create, true, 0, some (baseName p), p⟩ : LEv), ⟨wdA, .movedFrom, true, s.k.nextCookie, some (baseName p), p⟩,
      ⟨wdB, .movedTo, true, s.k.nextCookie, some (baseName q), q⟩] =
      [.one ⟨wdA, .create, true, 0, some (baseName p), p⟩,
       .two ⟨wdA, .movedFrom, true, s.k.nextCookie, some (baseName p), p⟩ ⟨wdB, .movedTo, true, s.k.nextCookie, some (baseName q), q⟩] := by
    simp [gsOf, group, pairIn, Grouped.keep]
  have hsub : subMoved (s.fs.add q true) p q = [] := by simp [subMoved, hdescq]
  have hrec3 : ((s.lib.remember s.k.nextCookie p).withWatch q s.k.nextWd).recursive = true := inv.isRec
  have hem : emitAll (s.fs.add q true) ((s.lib.remember s.k.nextCookie p).withWatch q s.k.nextWd).recursive s.full
      [.one ⟨wdA, .create, true, 0, some (baseName p), p⟩,
       .two ⟨wdA, .movedFrom, true, s.k.nextCookie, some (baseName p), p⟩ ⟨wdB, .movedTo, true, s.k.nextCookie, some (baseName q), q⟩] =
      ([mkEv .DirCreatedEvent p, dirMod p, mkEv .DirMovedEvent p q, dirMod p, dirMod q], false) := by
    rw [hrec3]
    simp [emitAll_cons, emitAll_nil, emit, hsub, dirMod, mkEv]
  have hmo : movedOut [Grouped.one (⟨wdA, .create, true, 0, some (baseName p), p⟩ : LEv),
      .two ⟨wdA, .movedFrom, true, s.k.nextCookie, some (baseName p), p⟩ ⟨wdB, .movedTo, true, s.k.nextCookie, some (baseName q), q⟩] = [] := by
    simp [movedOut]
  have hburst : s.burst [.mkdir p, .rename p q] =
      ({ s with fs := s.fs.add q true, k := ({ s.k with nextCookie := s.k.nextCookie + 1 } : Kern).withWatch s.fs.nextIno,
                lib := (s.lib.remember s.k.nextCookie p).withWatch q s.k.nextWd, stopped := false },
       [mkEv .DirCreatedEvent p, dirMod p, mkEv .DirMovedEvent p q, dirMod p, dirMod q]) := by
    unfold Sys.burst
    simp only [hk, hs, hc, Bool.or_self, Bool.false_eq_true, if_false, hl, hgs, hem, departed_nil _ hmo]
    simp [forgetAll_nil]
  rw [hburst]
  refine ⟨rfl, rfl, rfl, hc, ?_⟩
  -- the invariant: the arrived directory is watched under its new name
  have hnew : (⟨q, true, s.fs.nextIno⟩ : Ent) ∈ (s.fs.add q true).ents := FS.mem_add.mpr (Or.inr rfl)
  have hit : inTreeDir (⟨q, true, s.fs.nextIno⟩ : Ent) = true := by rw [inTreeDir_of_parent hq2 hqpar s.fs.nextIno, hwq]
  have i0 := (inv.bump (s.k.nextCookie + 1) (by omega)).remember s.k.nextCookie p (by simp)
  have i2 := i0.fs_grow hwfF (fun e he => FS.mem_add.mpr (Or.inl he))
  have i3 := i2.addWatch hnew hit hunw
  refine i3.mono ?_
  intro e he _ _
  rcases FS.mem_add.mp he with h | h
  · exact Or.inl ⟨trivial, h⟩
  · exact Or.inr h

/-- ... and what it delivers is what the two operations deliver one at a time (their contracts, concatenated), so the
    replay gives the tree -/
theorem burst_mkdir_rename_replay (s : Sys) (p q : P) (inv : InvRec s.fs s.k s.lib) (hs : s.stopped = false) (hc : s.crashed = false)
    (hv1 : validOp s.fs (.mkdir p) = true) (hq2 : 2 ≤ q.length) (hqf : s.fs.exists q = false) (hpq : p ≠ q)
    (hqpar : s.fs.isDir (parentOf q) = true)
    (hwp : watchedDir s.fs true (parentOf p) = true) (hwq : watchedDir s.fs true (parentOf q) = true) :
    (s.burst [.mkdir p, .rename p q]).2 = (contractRun s.fs true s.full [.mkdir p, .rename p q]).flatten ∧
    sameTree (replay (treeW s.fs) (s.burst [.mkdir p, .rename p q]).2) (treeW (s.burst [.mkdir p, .rename p q]).1.fs) := by
  obtain ⟨h1, h2, _, _, _⟩ := burst_mkdir_rename s p q inv hs hc hv1 hq2 hqf hpq hqpar hwp hwq
  obtain ⟨hp, hne, hpar⟩ := validOp_mkdir hv1
  have hnnp := ne_nil_of_two_le hp
  have hnnq := ne_nil_of_two_le hq2
  have hfp : s.fs.find? p = none := by
    cases h : s.fs.find? p with
    | none => rfl
    | some e => simp [FS.exists, h] at hne
  have hfq : s.fs.find? q = none := by
    cases h : s.fs.find? q with
    | none => rfl
    | some e => simp [FS.exists, h] at hqf
  have hfs1 : fsAfter s.fs (.mkdir p) = s.fs.add p true := rfl
  have hfind1p : (s.fs.add p true).find? p = some ⟨p, true, s.fs.nextIno⟩ := by rw [FS.find?_add, hfp]; simp
  have hfind1q : (s.fs.add p true).find? q = none := by rw [FS.find?_add, hfq]; simp [hpq]
  have hw1 : ∀ x : P, watchedDir s.fs true x = true → watchedDir (s.fs.add p true) true x = true := by
    intro x hx
    unfold watchedDir at hx ⊢
    simp only [Bool.and_eq_true] at hx ⊢
    exact ⟨FS.isDir_add_of_isDir hx.1, hx.2⟩
  have hents : (s.fs.add p true).ents.map (fun (x : Ent) =>
      if x.path == p then { x with path := q }
      else if isUnder p x.path then { x with path := q ++ x.path.drop p.length } else x) =
      s.fs.ents ++ [⟨q, true, s.fs.nextIno⟩] := by
    simp only [FS.add, List.map_append, List.map_cons, List.map_nil, beq_self_eq_true, if_true]
    congr 1
    have hnd := inv.wf.no_descendants_of_missing hnnp hne
    have hex := exists_false_iff.mp hne
    conv => rhs; rw [← List.map_id s.fs.ents]
    apply List.map_congr_left
    intro x hx
    have h1 : (x.path == p) = false := by simpa using hex x hx
    simp [h1, hnd x hx]
  have hfs2 : fsAfter (s.fs.add p true) (.rename p q) = s.fs.add q true := by
    simp only [fsAfter, kernelOp, hfind1p, hfind1q, hents]
    simp [FS.add]
  have hdescq : (s.fs.add q true).descendants q = [] := by
    unfold FS.descendants
    rw [List.filter_eq_nil_iff]
    intro e he
    rcases FS.mem_add.mp he with he | he
    · simp [inv.wf.no_descendants_of_missing hnnq hqf e he]
    · subst he; simp [isUnder_irrefl]
  have hcon : (contractRun s.fs true s.full [.mkdir p, .rename p q]).flatten =
      [mkEv .DirCreatedEvent p, dirMod p, mkEv .DirMovedEvent p q, dirMod p, dirMod q] := by
    simp only [contractRun, contract, hwp, if_true, Bool.false_eq_true, if_false, hfs1, hfind1p, hw1 _ hwp, hw1 _ hwq,
      Bool.and_self, renameTail, hfind1q, hfs2, subMoved, hdescq, movedCls]
    simp
  refine ⟨by rw [h1, hcon], ?_⟩
  rw [h1, ← hcon, h2]
  have hval : fsValid s.fs [.mkdir p, .rename p q] = true := by
    have hv2 : validOp (s.fs.add p true) (.rename p q) = true := by
      have hex1 : (s.fs.add p true).exists p = true := by simp [FS.exists, hfind1p]
      have hpar1 : (s.fs.add p true).isDir (parentOf q) = true := FS.isDir_add_of_isDir hqpar
      have hnu : isUnder p q = false := by
        cases h : isUnder p q with
        | false => rfl
        | true =>
          -- the parent of `q` would be `p` or lie below it, but `p` did not exist
          rcases isUnder_parent h with h' | h'
          · rw [h'] at hqpar
            obtain ⟨e, he, _⟩ := FS.isDir_iff.mp hqpar
            rw [hfp] at he; cases he
          · obtain ⟨e, he, _⟩ := FS.isDir_iff.mp hqpar
            have := inv.wf.no_descendants_of_missing hnnp hne e (FS.find?_some he).1
            rw [(FS.find?_some he).2, h'] at this; cases this
      simp [validOp, hp, hq2, hex1, hpar1, hpq, hnu, hfind1q]
    simp [fsValid, hv1, hfs1, hv2]
  have := replay_run inv.wf s.full [.mkdir p, .rename p q] hval (by simp)
  simpa [fsRun, hfs1, hfs2] using this

end WD.Pipe
