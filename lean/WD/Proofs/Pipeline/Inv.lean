/- the pipeline invariant (recursive watch) and what it says about single records -/
import WD.Proofs.Pipeline.FSFacts
set_option linter.unusedSimpArgs false
namespace WD.Pipe

/-- kernel watches, `_path_for_wd` and `_wd_for_path` are one bijection between watch descriptors and
    the directories that exist at or below the root, under their real current paths -/
structure InvOn (cov : Ent → Prop) (z : Option Nat) (fs : FS) (k : Kern) (lib : Lib) : Prop where
  wf : fs.WF
  isRec : lib.recursive = true
  kwd : (k.watches.map (·.1)).Nodup
  kino : (k.watches.map (·.2)).Nodup
  klt : ∀ w ∈ k.watches, w.1 < k.nextWd
  good : ∀ w ∈ k.watches, ∃ e ∈ fs.ents, e.ino = w.2 ∧ inTreeDir e = true ∧
           lookupW lib.pathForWd w.1 = some e.path ∧ lookupP lib.wdForPath e.path = some w.1
  cover : ∀ e ∈ fs.ents, inTreeDir e = true → cov e → ∃ wd, (wd, e.ino) ∈ k.watches
  pfwDom : ∀ wd p, lookupW lib.pathForWd wd = some p → (∃ ino, (wd, ino) ∈ k.watches) ∨ z = some wd
  zlt : ∀ w, z = some w → w < k.nextWd
  zdead : ∀ w ∈ k.watches, z ≠ some w.1
  wfpInv : ∀ p wd, lookupP lib.wdForPath p = some wd → lookupW lib.pathForWd wd = some p
  wfpNodup : (lib.wdForPath.map (·.1)).Nodup
  pfwNodup : (lib.pathForWd.map (·.1)).Nodup
  cookies : ∀ x ∈ lib.movedFrom, x.1 < k.nextCookie

/-- the invariant proper: every directory of the tree is covered (C02) -/
abbrev InvRec (fs : FS) (k : Kern) (lib : Lib) : Prop := InvOn (fun _ => True) none fs k lib

variable {fs : FS} {k : Kern} {lib : Lib} {cov : Ent → Prop} {z : Option Nat}

/-- a covered in-tree directory is watched, and known under its path in both maps -/
theorem InvOn.watched (inv : InvOn cov z fs k lib) {e : Ent} (he : e ∈ fs.ents) (hd : inTreeDir e = true) (hc : cov e) :
    ∃ wd, k.wdOfIno e.ino = some wd ∧ (wd, e.ino) ∈ k.watches ∧ lookupW lib.pathForWd wd = some e.path ∧
      lookupP lib.wdForPath e.path = some wd := by
  obtain ⟨wd, hw⟩ := inv.cover e he hd hc
  obtain ⟨e', he', hi, _, h1, h2⟩ := inv.good _ hw
  have : e' = e := inv.wf.ino_inj he' he hi
  subst this
  exact ⟨wd, wdOfIno_of_mem inv.kino hw, hw, h1, h2⟩

/-- nothing else is watched -/
theorem InvOn.unwatched (inv : InvOn cov z fs k lib) {e : Ent} (he : e ∈ fs.ents) (hd : inTreeDir e = false) :
    k.wdOfIno e.ino = none := by
  rw [wdOfIno_none]
  intro w hw hi
  obtain ⟨e', he', hi', hd', _⟩ := inv.good w hw
  have : e' = e := inv.wf.ino_inj he' he (hi'.trans hi)
  subst this
  rw [hd] at hd'; cases hd'

theorem InvOn.watch_ino_lt (inv : InvOn cov z fs k lib) {w : Nat × Nat} (hw : w ∈ k.watches) : w.2 < fs.nextIno := by
  obtain ⟨e', he', hi', _⟩ := inv.good w hw
  rw [← hi']; exact inv.wf.inoLt he'

theorem InvOn.fresh_unwatched (inv : InvOn cov z fs k lib) : k.wdOfIno fs.nextIno = none := by
  rw [wdOfIno_none]
  intro w hw hi
  have := inv.watch_ino_lt hw
  omega

/-- a key of `_wd_for_path` names an in-tree directory watched under that descriptor -/
theorem InvOn.key_dir (inv : InvOn cov none fs k lib) {p : P} {wd : Nat} (h : lookupP lib.wdForPath p = some wd) :
    ∃ e ∈ fs.ents, e.path = p ∧ inTreeDir e = true ∧ (wd, e.ino) ∈ k.watches := by
  have h1 := inv.wfpInv p wd h
  obtain ⟨ino, hw⟩ := (inv.pfwDom wd p h1).resolve_right (by simp)
  obtain ⟨e, he, hi, hd, h2, _⟩ := inv.good _ hw
  simp only at hi h2
  rw [h1] at h2
  refine ⟨e, he, (Option.some.inj h2).symm, hd, ?_⟩
  rw [hi]; exact hw

theorem inTreeDir_iff {e : Ent} : inTreeDir e = true ↔ e.isDir = true ∧ (e.path = ["W"] ∨ isUnder ["W"] e.path = true) := by
  unfold inTreeDir; simp

theorem watchedDir_rec_iff {fs : FS} {d : P} :
    watchedDir fs true d = true ↔ ∃ e, fs.find? d = some e ∧ inTreeDir e = true := by
  unfold watchedDir
  constructor
  · intro h
    simp only [Bool.and_eq_true, Bool.or_eq_true, beq_iff_eq, Bool.true_and] at h
    obtain ⟨e, he, hd⟩ := FS.isDir_iff.mp h.1
    refine ⟨e, he, ?_⟩
    have hp := (FS.find?_some he).2
    rw [inTreeDir_iff, hp]; exact ⟨hd, h.2⟩
  · rintro ⟨e, he, hd⟩
    have hp := (FS.find?_some he).2
    rw [inTreeDir_iff, hp] at hd
    simp only [Bool.and_eq_true, Bool.or_eq_true, beq_iff_eq, Bool.true_and]
    exact ⟨FS.isDir_iff.mpr ⟨e, he, hd.1⟩, hd.2⟩

theorem watchedDir_rec_false {fs : FS} {d : P} {e : Ent} (he : fs.find? d = some e) (h : watchedDir fs true d = false) :
    inTreeDir e = false := by
  cases hd : inTreeDir e with
  | false => rfl
  | true => rw [watchedDir_rec_iff.mpr ⟨e, he, hd⟩] at h; cases h

/-- the record(s) the kernel queues on the parent directory of `p` -/
theorem InvRec.parent_recs (inv : InvRec fs k lib) (p : P) :
    (watchedDir fs true (parentOf p) = true ∧ ∃ wd, lookupW lib.pathForWd wd = some (parentOf p) ∧
        lookupP lib.wdForPath (parentOf p) = some wd ∧ ∀ f b c,
        k.onEntry ((fs.find? (parentOf p)).map (·.ino)) f b c (baseName p) = [⟨wd, f, b, c, some (baseName p)⟩]) ∨
    (watchedDir fs true (parentOf p) = false ∧ ∀ f b c,
        k.onEntry ((fs.find? (parentOf p)).map (·.ino)) f b c (baseName p) = []) := by
  cases hf : fs.find? (parentOf p) with
  | none =>
    right
    refine ⟨?_, by simp [Kern.onEntry]⟩
    cases hw : watchedDir fs true (parentOf p) with
    | false => rfl
    | true => obtain ⟨e, he, _⟩ := watchedDir_rec_iff.mp hw; rw [hf] at he; cases he
  | some d =>
    have hd := FS.find?_some hf
    cases ht : inTreeDir d with
    | true =>
      left
      obtain ⟨wd, h1, _, h2, h3⟩ := inv.watched hd.1 ht trivial
      rw [hd.2] at h2 h3
      exact ⟨watchedDir_rec_iff.mpr ⟨d, hf, ht⟩, wd, h2, h3, by intro f b c; simp [onEntry_some h1]⟩
    | false =>
      right
      refine ⟨?_, by intro f b c; simp [onEntry_none (inv.unwatched hd.1 ht)]⟩
      cases hw : watchedDir fs true (parentOf p) with
      | false => rfl
      | true =>
        obtain ⟨e, he, hte⟩ := watchedDir_rec_iff.mp hw
        rw [hf] at he; cases he; rw [ht] at hte; cases hte

/- ---------------- single records through `read_events` ---------------- -/

/-- records that do not touch the maps -/
def simpleFlag (recursive : Bool) (f : Flag) (isDir : Bool) : Bool :=
  match f with
  | .movedFrom | .movedTo | .ignored => false
  | .create => !(recursive && isDir)
  | _ => true

def NRec.src (r : NRec) (wdPath : P) : P := match r.name with | none => wdPath | some n => wdPath ++ [n]
def NRec.toLEv (r : NRec) (wdPath : P) : LEv := ⟨r.wd, r.flag, r.isDir, r.cookie, r.name, r.src wdPath⟩

theorem libRecord_simple (fs : FS) (k : Kern) (lib : Lib) (r : NRec) (wp : P)
    (hs : simpleFlag lib.recursive r.flag r.isDir = true) (hw : lookupW lib.pathForWd r.wd = some wp) :
    libRecord fs k lib r = some (k, lib, [r.toLEv wp]) := by
  obtain ⟨wd, flag, isDir, cookie, name⟩ := r
  simp only at hw hs
  unfold libRecord
  simp only [hw]
  unfold simpleFlag at hs
  cases name <;> cases flag <;> simp at hs <;> simp [NRec.toLEv, NRec.src] <;>
    (intro h1 h2; simp [h1, h2] at hs)

theorem libBatch_nil (fs : FS) (k : Kern) (lib : Lib) : libBatch fs k lib [] = some (k, lib, []) := rfl

theorem libBatch_cons (fs : FS) (k : Kern) (lib : Lib) (r : NRec) (rest : List NRec) :
    libBatch fs k lib (r :: rest) =
      match libRecord fs k lib r with
      | none => none
      | some (k1, l1, evs) =>
        match libBatch fs k1 l1 rest with
        | none => none
        | some (k2, l2, more) => some (k2, l2, evs ++ more) := rfl

theorem libBatch_append (fs : FS) (k : Kern) (lib : Lib) (r1 r2 : List NRec) {k1 : Kern} {l1 : Lib} {e1 : List LEv}
    (h1 : libBatch fs k lib r1 = some (k1, l1, e1)) :
    libBatch fs k lib (r1 ++ r2) =
      match libBatch fs k1 l1 r2 with
      | none => none
      | some (k2, l2, e2) => some (k2, l2, e1 ++ e2) := by
  induction r1 generalizing k lib k1 l1 e1 with
  | nil =>
    simp only [libBatch_nil, Option.some.injEq, Prod.mk.injEq] at h1
    obtain ⟨rfl, rfl, rfl⟩ := h1
    simp only [List.nil_append]
    cases libBatch fs k lib r2 with
    | none => rfl
    | some x => rfl
  | cons r rest ih =>
    simp only [List.cons_append, libBatch_cons] at h1 ⊢
    cases hr : libRecord fs k lib r with
    | none => simp [hr] at h1
    | some x =>
      obtain ⟨ka, la, ea⟩ := x
      simp only [hr] at h1 ⊢
      cases hb : libBatch fs ka la rest with
      | none => simp [hb] at h1
      | some y =>
        obtain ⟨kb, lb, eb⟩ := y
        simp only [hb, Option.some.injEq, Prod.mk.injEq] at h1
        obtain ⟨rfl, rfl, rfl⟩ := h1
        rw [ih ka la hb]
        cases libBatch fs kb lb r2 with
        | none => rfl
        | some z => simp [List.append_assoc]

/-- a batch of records none of which touches the maps -/
theorem libBatch_simple (fs : FS) (k : Kern) (lib : Lib) (recs : List NRec) (path : NRec → P)
    (h : ∀ r ∈ recs, simpleFlag lib.recursive r.flag r.isDir = true ∧ lookupW lib.pathForWd r.wd = some (path r)) :
    libBatch fs k lib recs = some (k, lib, recs.map (fun r => r.toLEv (path r))) := by
  induction recs with
  | nil => rfl
  | cons r rest ih =>
    have hr := h r (List.mem_cons_self ..)
    rw [libBatch_cons, libRecord_simple fs k lib r (path r) hr.1 hr.2]
    simp only
    rw [ih (fun x hx => h x (List.mem_cons_of_mem _ hx))]
    simp

end WD.Pipe
