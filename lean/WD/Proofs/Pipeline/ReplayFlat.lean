/- C01 for a non-recursive watch: replaying the events reproduces the root's direct children -/
import WD.Proofs.Pipeline.FlatSpec
set_option linter.unusedSimpArgs false
namespace WD.Pipe

variable {fs : FS}

/-- a direct child of the root -/
def isChild (x : P) : Bool := x.length == 2 && isUnder ["W"] x

theorem mem_treeW1 {y : P × Bool} : y ∈ treeW1 fs ↔ ∃ e ∈ fs.ents, e.path = y.1 ∧ e.isDir = y.2 ∧ isChild y.1 = true := by
  simp only [treeW1, List.mem_filter, mem_treeW, isChild, Bool.and_eq_true, beq_iff_eq, decide_eq_true_eq]
  constructor
  · rintro ⟨⟨e, he, h1, h2, h3⟩, h4⟩; exact ⟨e, he, h1, h2, h4, h3⟩
  · rintro ⟨e, he, h1, h2, h4, h3⟩; exact ⟨⟨e, he, h1, h2, h3⟩, h4⟩

theorem isChild_iff_parent {fs : FS} {p : P} (hp : 2 ≤ p.length) (hpar : fs.isDir (parentOf p) = true) :
    isChild p = watchedDir fs false (parentOf p) := by
  have hb := snoc_parent_base (ne_nil_of_two_le hp)
  rw [watchedDir_flat, hpar, Bool.true_and]
  by_cases h : parentOf p = ["W"]
  · have : p.length = 2 := by rw [← hb, h]; rfl
    have hu : isUnder ["W"] p = true := by rw [← hb, h]; exact isUnder_snoc _ _
    simp [isChild, this, hu, h]
  · have hne : (parentOf p == ["W"]) = false := by simp [h]
    rw [hne]
    cases hc : isChild p with
    | false => rfl
    | true =>
      simp only [isChild, Bool.and_eq_true, beq_iff_eq] at hc
      exfalso; apply h
      obtain ⟨r, hr, hpr⟩ := isUnder_iff.mp hc.2
      have hl : r.length = 1 := by have := congrArg List.length hpr; simp at this; omega
      match r, hl with
      | [x], _ => rw [hpr]; simp [parentOf]

theorem child_not_under {p x : P} (hp : 2 ≤ p.length) (hc : isChild x = true) : isUnder p x = false := by
  cases h : isUnder p x with
  | false => rfl
  | true =>
    have := isUnder_length h
    simp only [isChild, Bool.and_eq_true, beq_iff_eq] at hc
    omega

theorem treeW1_add {p : P} (hp : 2 ≤ p.length) (hne : fs.exists p = false) (hpar : fs.isDir (parentOf p) = true) (d : Bool) :
    sameTree (treeW1 (fs.add p d)) (if watchedDir fs false (parentOf p) then setEntry (treeW1 fs) p d else treeW1 fs) := by
  have hc := isChild_iff_parent hp hpar
  have hnone := find?_none_of_not_exists hne
  intro y
  rw [mem_treeW1]
  cases hw : watchedDir fs false (parentOf p) with
  | true =>
    simp only [if_true, mem_setEntry, mem_treeW1]
    constructor
    · rintro ⟨e, he, h1, h2, h3⟩
      rcases FS.mem_add.mp he with h | h
      · exact Or.inl ⟨⟨e, h, h1, h2, h3⟩, by rw [← h1]; exact hnone e h⟩
      · subst h; exact Or.inr (Prod.ext h1.symm h2.symm)
    · rintro (⟨⟨e, he, h1, h2, h3⟩, _⟩ | h)
      · exact ⟨e, FS.mem_add.mpr (Or.inl he), h1, h2, h3⟩
      · subst h; exact ⟨_, FS.mem_add.mpr (Or.inr rfl), rfl, rfl, by rw [hc, hw]⟩
  | false =>
    simp only [Bool.false_eq_true, if_false, mem_treeW1]
    constructor
    · rintro ⟨e, he, h1, h2, h3⟩
      rcases FS.mem_add.mp he with h | h
      · exact ⟨e, h, h1, h2, h3⟩
      · subst h; simp only at h1; rw [← h1, hc, hw] at h3; cases h3
    · rintro ⟨e, he, h1, h2, h3⟩
      exact ⟨e, FS.mem_add.mpr (Or.inl he), h1, h2, h3⟩

/-- removing `p` and possibly things below it -/
theorem treeW1_remove {fs1 : FS} {p : P} (hp : 2 ≤ p.length)
    (h1 : ∀ x ∈ fs1.ents, x ∈ fs.ents ∧ x.path ≠ p)
    (h2 : ∀ x ∈ fs.ents, x.path ≠ p → isUnder p x.path = false → x ∈ fs1.ents) :
    sameTree (treeW1 fs1) (eraseSub (treeW1 fs) p) := by
  intro y
  rw [mem_treeW1, mem_eraseSub, mem_treeW1]
  constructor
  · rintro ⟨e, he, e1, e2, e3⟩
    obtain ⟨m1, m2⟩ := h1 e he
    exact ⟨⟨e, m1, e1, e2, e3⟩, e1 ▸ m2, child_not_under hp e3⟩
  · rintro ⟨⟨e, he, e1, e2, e3⟩, h4, h5⟩
    exact ⟨e, h2 e he (e1 ▸ h4) (e1 ▸ h5), e1, e2, e3⟩

theorem eraseSub_nonchild {p : P} (hp : 2 ≤ p.length) (hc : isChild p = false) : sameTree (eraseSub (treeW1 fs) p) (treeW1 fs) := by
  intro y
  rw [mem_eraseSub]
  constructor
  · exact fun h => h.1
  · intro h
    obtain ⟨_, _, _, _, h3⟩ := mem_treeW1.mp h
    have hne : y.1 ≠ p := by intro hh; rw [hh, hc] at h3; cases h3
    exact ⟨h, hne, child_not_under hp h3⟩

end WD.Pipe

namespace WD.Pipe
variable {fs : FS}

/-- removal of `p` (alone, or with everything below it), as the non-recursive contract reports it -/
theorem replayFlat_removal (hwf : fs.WF) {fs1 : FS} {p : P} {e : Ent} (he : fs.find? p = some e) (hp2 : 2 ≤ p.length)
    (h1 : ∀ x ∈ fs1.ents, x ∈ fs.ents ∧ x.path ≠ p)
    (h2 : ∀ x ∈ fs.ents, x.path ≠ p → isUnder p x.path = false → x ∈ fs1.ents) :
    sameTree (replay (treeW1 fs) (if watchedDir fs false (parentOf p) then evDeleted e.isDir p else [])) (treeW1 fs1) := by
  have hem := FS.find?_some he
  have hpar : fs.isDir (parentOf p) = true := by
    rcases hwf.parent hem.1 with h | h | h
    · rw [hem.2] at h; rw [h] at hp2; simp at hp2
    · rw [hem.2] at h; rw [h] at hp2; simp at hp2
    · rw [hem.2] at h; exact h.2
  have hc := isChild_iff_parent hp2 hpar
  apply sameTree_symm
  apply sameTree_trans (treeW1_remove hp2 h1 h2)
  cases hw : watchedDir fs false (parentOf p) with
  | true => simp only [if_true, replay_evDeleted]; exact sameTree_refl _
  | false =>
    simp only [Bool.false_eq_true, if_false, replay_nil]
    exact eraseSub_nonchild hp2 (by rw [hc, hw])

theorem replayFlat_contract (hwf : fs.WF) (full : Bool) (op : Op) (hv : validOp fs op = true) (hroot : op ≠ .rmdir ["W"]) :
    sameTree (replay (treeW1 fs) (contract fs false full op).1) (treeW1 (fsAfter fs op)) := by
  cases op with
  | create p =>
    obtain ⟨hp, hne, hpar⟩ := validOp_create hv
    have h1 : fsAfter fs (.create p) = fs.add p false := rfl
    rw [h1]
    apply sameTree_symm
    apply sameTree_trans (treeW1_add hp hne hpar false)
    cases hw : watchedDir fs false (parentOf p) <;>
      simp [contract, hw, replay_cons, replay_nil, applyEv_dirMod, applyEv_mk_fcreated, applyEv_mk_opened, applyEv_mk_closed, sameTree_refl]
  | mkdir p =>
    obtain ⟨hp, hne, hpar⟩ := validOp_mkdir hv
    have h1 : fsAfter fs (.mkdir p) = fs.add p true := rfl
    rw [h1]
    apply sameTree_symm
    apply sameTree_trans (treeW1_add hp hne hpar true)
    cases hw : watchedDir fs false (parentOf p) <;>
      simp [contract, hw, replay_cons, replay_nil, applyEv_dirMod, applyEv_mk_dcreated, sameTree_refl]
  | write p =>
    have h1 : fsAfter fs (.write p) = fs := rfl
    rw [h1]
    cases hw : watchedDir fs false (parentOf p) <;>
      simp [contract, hw, replay_cons, replay_nil, applyEv_dirMod, applyEv_mk_fmod, applyEv_mk_opened, applyEv_mk_closed, sameTree_refl]
  | chmod p =>
    have h1 : fsAfter fs (.chmod p) = fs := by simp only [fsAfter, kernelOp]; cases fs.find? p <;> rfl
    rw [h1]
    simp only [contract]
    cases hf : fs.find? p with
    | none => exact sameTree_refl _
    | some e =>
      simp only
      by_cases h4 : watchedDir fs false (parentOf p) = true <;> by_cases h3 : watchedDir fs false p = true <;>
        cases h2 : e.isDir <;>
        simp [h2, h3, h4, replay_cons, replay_nil, applyEv_mk_fmod, applyEv_mk_dmod, sameTree_refl]
  | unlink p =>
    have hv' : fs.isFile p = true := by simpa [validOp] using hv
    obtain ⟨f, hf, hfile⟩ := FS.isFile_iff.mp hv'
    have hfm := FS.find?_some hf
    have hp2 : 2 ≤ p.length := by
      rcases hwf.parent hfm.1 with h | h | h
      · have := hwf.rootW; rw [← h, hfm.2] at this
        obtain ⟨d, hd, hdd⟩ := FS.isDir_iff.mp this; rw [hf] at hd; cases hd; rw [hfile] at hdd; cases hdd
      · have := hwf.rootO; rw [← h, hfm.2] at this
        obtain ⟨d, hd, hdd⟩ := FS.isDir_iff.mp this; rw [hf] at hd; cases hd; rw [hfile] at hdd; cases hdd
      · rw [← hfm.2]; exact h.1
    have h1 : fsAfter fs (.unlink p) = fs.del p := by simp [fsAfter, kernelOp, hf, removeEntry, hfm.2, FS.del]
    have hex : fs.exists p = true := FS.exists_iff.mpr ⟨f, hf⟩
    rw [h1]
    have := replayFlat_removal hwf hf hp2 (fs1 := fs.del p) (fun x hx => FS.mem_del.mp hx)
      (fun x hx hne _ => FS.mem_del.mpr ⟨hx, hne⟩)
    rw [hfile] at this
    simpa [contract, hex] using this
  | rmdir p =>
    have hv' : (2 ≤ p.length ∨ p = ["W"]) ∧ fs.isDir p = true ∧ (fs.children p).isEmpty = true := by
      have := hv; simp [validOp] at this; exact ⟨this.1.1, this.1.2, by simpa using this.2⟩
    obtain ⟨e, he, hd⟩ := FS.isDir_iff.mp hv'.2.1
    have hem := FS.find?_some he
    have hex : fs.exists p = true := FS.exists_iff.mpr ⟨e, he⟩
    have h1 : fsAfter fs (.rmdir p) = fs.del p := by simp [fsAfter, kernelOp, he, removeEntry, hem.2, FS.del]
    have hW : p ≠ ["W"] := fun h => hroot (by rw [h])
    have hp2 : 2 ≤ p.length := by rcases hv'.1 with h | h; exact h; exact absurd h hW
    rw [h1]
    have := replayFlat_removal hwf he hp2 (fs1 := fs.del p) (fun x hx => FS.mem_del.mp hx)
      (fun x hx hne _ => FS.mem_del.mpr ⟨hx, hne⟩)
    rw [hd] at this
    have hb : (p == ["W"]) = false := by simp [hW]
    simpa [contract, hb, hex] using this
  | rmtree p => exact (by
      have hv' := hv
      simp only [validOp, validRmtree, Bool.and_eq_true, decide_eq_true_eq, List.all_eq_true] at hv'
      obtain ⟨⟨⟨⟨⟨hp2, hdir⟩, hall⟩, hdesc⟩, _⟩, _⟩ := hv'
      obtain ⟨e, he, _⟩ := FS.isDir_iff.mp hdir
      have hem := FS.find?_some he
      have hpaths := filterMap_find_paths (fs := fs) (canonOrder fs p) (fun q hq => (hall q hq).2)
      have hfs : fsAfter fs (.rmtree p) = (removeAll fs ⟨[], 1, 1⟩ ((canonOrder fs p).filterMap fs.find? ++ [e])).1 := by
        simp [fsAfter, kernelOp, he]
      have hes : ((canonOrder fs p).filterMap fs.find? ++ [e]).map Ent.path = canonOrder fs p ++ [p] := by simp [hpaths, hem.2]
      rw [hfs]
      have hrem := replayFlat_removal hwf he hp2 (fs1 := (removeAll fs ⟨[], 1, 1⟩ ((canonOrder fs p).filterMap fs.find? ++ [e])).1)
        (by
          intro x hx
          obtain ⟨m1, m2⟩ := (mem_removeAll_fs _ _ _ _).mp hx
          exact ⟨m1, fun h => m2 (by rw [hes, h]; simp)⟩)
        (by
          intro x hx hne hnu
          refine (mem_removeAll_fs _ _ _ _).mpr ⟨hx, ?_⟩
          rw [hes]; intro hin
          rcases List.mem_append.mp hin with h | h
          · have := (hall _ h).1; rw [hnu] at this; cases this
          · simp at h; exact hne h)
      -- the contract reports `p` itself (when it is a direct child of the root) and nothing else
      have hcon : (contract fs false full (.rmtree p)).1 = if watchedDir fs false (parentOf p) then evDeleted e.isDir p else [] := by
        simp only [contract, contractRemovals, he, Option.toList_some, List.flatMap_append, List.flatMap_cons, List.flatMap_nil,
          List.append_nil, hem.2]
        have hnone : ((canonOrder fs p).filterMap fs.find?).flatMap
            (fun x => if watchedDir fs false (parentOf x.path) then evDeleted x.isDir x.path else []) = [] := by
          rw [List.flatMap_eq_nil_iff]
          intro x hx
          obtain ⟨m1, m2⟩ := mem_filterMap_find hx
          have hu := (hall _ m2).1
          have hl := isUnder_length hu
          have hx2 : 2 ≤ x.path.length := by omega
          have hpd : fs.isDir (parentOf x.path) = true := by
            rcases hwf.parent m1 with h | h | h
            · rw [h] at hx2; simp at hx2
            · rw [h] at hx2; simp at hx2
            · exact h.2
          have : isChild x.path = false := by
            simp only [isChild, Bool.and_eq_false_iff, beq_eq_false_iff_ne]
            left; omega
          rw [← isChild_iff_parent hx2 hpd, this]; simp
        rw [hnone]; simp
      rw [hcon]; exact hrem)
  | rmtreeOrd p order => exact (by
      have hv' := hv
      simp only [validOp, validRmtree, Bool.and_eq_true, decide_eq_true_eq, List.all_eq_true] at hv'
      obtain ⟨⟨⟨⟨⟨hp2, hdir⟩, hall⟩, hdesc⟩, _⟩, _⟩ := hv'
      obtain ⟨e, he, _⟩ := FS.isDir_iff.mp hdir
      have hem := FS.find?_some he
      have hpaths := filterMap_find_paths (fs := fs) order (fun q hq => (hall q hq).2)
      have hfs : fsAfter fs (.rmtreeOrd p order) = (removeAll fs ⟨[], 1, 1⟩ (order.filterMap fs.find? ++ [e])).1 := by
        simp [fsAfter, kernelOp, he]
      have hes : (order.filterMap fs.find? ++ [e]).map Ent.path = order ++ [p] := by simp [hpaths, hem.2]
      rw [hfs]
      have hrem := replayFlat_removal hwf he hp2 (fs1 := (removeAll fs ⟨[], 1, 1⟩ (order.filterMap fs.find? ++ [e])).1)
        (by
          intro x hx
          obtain ⟨m1, m2⟩ := (mem_removeAll_fs _ _ _ _).mp hx
          exact ⟨m1, fun h => m2 (by rw [hes, h]; simp)⟩)
        (by
          intro x hx hne hnu
          refine (mem_removeAll_fs _ _ _ _).mpr ⟨hx, ?_⟩
          rw [hes]; intro hin
          rcases List.mem_append.mp hin with h | h
          · have := (hall _ h).1; rw [hnu] at this; cases this
          · simp at h; exact hne h)
      have hcon : (contract fs false full (.rmtreeOrd p order)).1 = if watchedDir fs false (parentOf p) then evDeleted e.isDir p else [] := by
        simp only [contract, contractRemovals, he, Option.toList_some, List.flatMap_append, List.flatMap_cons, List.flatMap_nil,
          List.append_nil, hem.2]
        have hnone : (order.filterMap fs.find?).flatMap
            (fun x => if watchedDir fs false (parentOf x.path) then evDeleted x.isDir x.path else []) = [] := by
          rw [List.flatMap_eq_nil_iff]
          intro x hx
          obtain ⟨m1, m2⟩ := mem_filterMap_find hx
          have hu := (hall _ m2).1
          have hl := isUnder_length hu
          have hx2 : 2 ≤ x.path.length := by omega
          have hpd : fs.isDir (parentOf x.path) = true := by
            rcases hwf.parent m1 with h | h | h
            · rw [h] at hx2; simp at hx2
            · rw [h] at hx2; simp at hx2
            · exact h.2
          have : isChild x.path = false := by
            simp only [isChild, Bool.and_eq_false_iff, beq_eq_false_iff_ne]
            left; omega
          rw [← isChild_iff_parent hx2 hpd, this]; simp
        rw [hnone]; simp
      rw [hcon]; exact hrem)
  | rename p q => exact (by
      obtain ⟨e, ok⟩ := renameOK_of_valid hv
      have hem := FS.find?_some ok.he
      have hpn := ne_nil_of_two_le ok.hp2
      have hqn := ne_nil_of_two_le ok.hq2
      have hppar : fs.isDir (parentOf p) = true := by
        rcases hwf.parent hem.1 with h | h | h
        · rw [hem.2] at h; rw [h] at ok; have := ok.hp2; simp at this
        · rw [hem.2] at h; rw [h] at ok; have := ok.hp2; simp at this
        · rw [hem.2] at h; exact h.2
      have hcp := isChild_iff_parent ok.hp2 hppar
      have hcq := isChild_iff_parent ok.hq2 ok.hqpar
      rw [fsAfter_rename ok, contract_rename_flat fs full p q e ok]
      -- the root's direct children after the rename
      have hmem : ∀ y : P × Bool, y ∈ treeW1 (fs.renamed p q) ↔
          (y ∈ treeW1 fs ∧ y.1 ≠ p ∧ y.1 ≠ q) ∨ (y = (q, e.isDir) ∧ isChild q = true) := by
        intro y
        rw [mem_treeW1, mem_treeW1]
        constructor
        · rintro ⟨z, hz, h1, h2, h3⟩
          obtain ⟨x, hx, hxq, rfl⟩ := FS.mem_renamed.mp hz
          simp only [rwEnt] at h1 h2
          rcases rwPath_cases p q x.path with ⟨c1, e1⟩ | ⟨c1, e1, _⟩ | ⟨c1, c2, e1⟩
          · right
            have hxe : x = e := hwf.path_inj hx hem.1 (c1.trans hem.2.symm)
            rw [e1] at h1
            exact ⟨Prod.ext h1.symm (by rw [← h2, hxe]), h1 ▸ h3⟩
          · exfalso
            rw [← h1, e1] at h3
            simp only [isChild, Bool.and_eq_true, beq_iff_eq, List.length_append] at h3
            obtain ⟨r, hr, hxr⟩ := isUnder_iff.mp c1
            have : 0 < (x.path.drop p.length).length := by rw [hxr]; simp; exact List.length_pos_iff.mpr hr
            have := ok.hq2; omega
          · left
            rw [e1] at h1
            exact ⟨⟨x, hx, h1, h2, h3⟩, h1 ▸ c1, h1 ▸ hxq⟩
        · rintro (⟨⟨x, hx, h1, h2, h3⟩, hyp, hyq⟩ | ⟨rfl, hcq'⟩)
          · have hu := child_not_under ok.hp2 h3
            refine ⟨rwEnt p q x, FS.mem_renamed.mpr ⟨x, hx, h1 ▸ hyq, rfl⟩, ?_, h2, h3⟩
            simp only [rwEnt]; rw [rwPath_other (h1 ▸ hyp) (h1 ▸ hu)]; exact h1
          · exact ⟨rwEnt p q e, FS.mem_renamed.mpr ⟨e, hem.1, by rw [hem.2]; exact ok.hne, rfl⟩,
              by simp [rwEnt, hem.2, rwPath_at], rfl, hcq'⟩
      intro y
      rw [hmem]
      cases hwp : watchedDir fs false (parentOf p) <;> cases hwq : watchedDir fs false (parentOf q)
      · simp only [Bool.false_and, Bool.false_eq_true, if_false, replay_nil]
        rw [hcq, hwq]
        constructor
        · intro h
          obtain ⟨_, _, _, _, h3⟩ := mem_treeW1.mp h
          refine Or.inl ⟨h, ?_, ?_⟩
          · intro hh; rw [hh, hcp, hwp] at h3; cases h3
          · intro hh; rw [hh, hcq, hwq] at h3; cases h3
        · rintro (⟨h, _, _⟩ | ⟨_, h⟩)
          · exact h
          · cases h
      · simp only [Bool.false_and, Bool.false_eq_true, if_false, if_true, replay_append, replay_cons, replay_nil, applyEv_dirMod]
        have hfirst : replay (treeW1 fs) (if full then [mkEv (movedCls e.isDir) [] q] else [mkEv (createdCls e.isDir) q]) =
            setEntry (treeW1 fs) q e.isDir := by
          cases full <;> simp [replay_cons, replay_nil, applyEv_mk_created, applyEv_mk_moved_in _ _ _ hqn]
        rw [hfirst, mem_setEntry, hcq, hwq]
        constructor
        · rintro (⟨h, hyq⟩ | h)
          · obtain ⟨_, _, _, _, h3⟩ := mem_treeW1.mp h
            have hyp : y.1 ≠ p := by intro hh; rw [hh, hcp, hwp] at h3; cases h3
            exact Or.inl ⟨h, hyp, hyq⟩
          · exact Or.inr ⟨h, rfl⟩
        · rintro (⟨h, _, hyq⟩ | ⟨h, _⟩)
          · exact Or.inl ⟨h, hyq⟩
          · exact Or.inr h
      · simp only [Bool.and_false, Bool.false_eq_true, if_false, if_true]
        have hfirst : replay (treeW1 fs) (if full then [mkEv (movedCls e.isDir) p [], dirMod p] else evDeleted e.isDir p) =
            eraseSub (treeW1 fs) p := by
          cases full
          · simp [replay_evDeleted]
          · simp [replay_cons, replay_nil, applyEv_dirMod, applyEv_mk_moved_out _ _ _ hpn]
        rw [hfirst, mem_eraseSub, hcq, hwq]
        constructor
        · rintro ⟨h, hyp, _⟩
          obtain ⟨_, _, _, _, h3⟩ := mem_treeW1.mp h
          have hyq : y.1 ≠ q := by intro hh; rw [hh, hcq, hwq] at h3; cases h3
          exact Or.inl ⟨h, hyp, hyq⟩
        · rintro (⟨h, hyp, _⟩ | ⟨_, h⟩)
          · obtain ⟨_, _, _, _, h3⟩ := mem_treeW1.mp h
            exact ⟨h, hyp, child_not_under ok.hp2 h3⟩
          · cases h
      · simp only [Bool.and_self, if_true, replay_cons, replay_nil, applyEv_dirMod, applyEv_mk_moved _ _ _ _ hpn hqn]
        rw [mem_setEntry, mem_eraseSub, hcq, hwq]
        constructor
        · rintro (⟨⟨h, hyp, _⟩, hyq⟩ | h)
          · exact Or.inl ⟨h, hyp, hyq⟩
          · exact Or.inr ⟨h, rfl⟩
        · rintro (⟨h, hyp, hyq⟩ | ⟨h, _⟩)
          · obtain ⟨_, _, _, _, h3⟩ := mem_treeW1.mp h
            exact Or.inl ⟨⟨h, hyp, child_not_under ok.hp2 h3⟩, hyq⟩
          · exact Or.inr h)

/-- C01 (non-recursive watch): replaying the contract's events of a whole history on the root's direct children
    as they were at the start gives the root's direct children afterwards -/
theorem replayFlat_run (hwf : fs.WF) (full : Bool) (ops : List Op) (hv : fsValid fs ops = true) (hroot : Op.rmdir ["W"] ∉ ops) :
    sameTree (replay (treeW1 fs) (contractRun fs false full ops).flatten) (treeW1 (fsRun fs ops)) := by
  induction ops generalizing fs with
  | nil => exact sameTree_refl _
  | cons op rest ih =>
    simp only [fsValid, Bool.and_eq_true] at hv
    have hne : op ≠ .rmdir ["W"] := fun h => hroot (h ▸ List.mem_cons_self ..)
    have hst : (contract fs false full op).2 = false := by
      cases h : (contract fs false full op).2 with
      | false => rfl
      | true => exact absurd ((contract_stop_iff _ _ _ _).mp h) hne
    simp only [contractRun, hst, Bool.false_eq_true, if_false, List.flatten_cons, replay_append, fsRun]
    have h1 := replayFlat_contract hwf full op hv.1 hne
    have h2 := ih (wf_after hwf op hv.1 hne) hv.2 (fun h => hroot (List.mem_cons_of_mem _ h))
    exact sameTree_trans (sameTree_replay h1 _) h2

end WD.Pipe
