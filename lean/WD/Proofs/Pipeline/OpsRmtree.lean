/- recursive delete under a recursive watch -/
import WD.Proofs.Pipeline.OpsDir
set_option linter.unusedSimpArgs false
namespace WD.Pipe

theorem removeAll_acc (es : List Ent) (fs : FS) (k : Kern) (acc : List NRec) :
    es.foldl (fun (a : FS × Kern × List NRec) x =>
      let (fs1, k1, r) := removeEntry a.1 a.2.1 x
      (fs1, k1, a.2.2 ++ r)) (fs, k, acc) =
    ((removeAll fs k es).1, (removeAll fs k es).2.1, acc ++ (removeAll fs k es).2.2) := by
  induction es generalizing fs k acc with
  | nil => simp [removeAll]
  | cons e rest ih =>
    simp only [removeAll, List.foldl_cons, List.nil_append]
    rw [ih, ih (acc := (removeEntry fs k e).2.2)]
    simp [List.append_assoc]

theorem removeAll_nil (fs : FS) (k : Kern) : removeAll fs k [] = (fs, k, []) := rfl

theorem removeAll_cons (fs : FS) (k : Kern) (e : Ent) (rest : List Ent) :
    removeAll fs k (e :: rest) =
      ((removeAll (removeEntry fs k e).1 (removeEntry fs k e).2.1 rest).1,
       (removeAll (removeEntry fs k e).1 (removeEntry fs k e).2.1 rest).2.1,
       (removeEntry fs k e).2.2 ++ (removeAll (removeEntry fs k e).1 (removeEntry fs k e).2.1 rest).2.2) := by
  conv => lhs; unfold removeAll
  simp only [List.foldl_cons, List.nil_append]
  rw [removeAll_acc]

/-- the entries can be removed one after the other: each is there, is not a top directory, and is a leaf
    when its turn comes -/
def EChain : FS → List Ent → Prop
  | _, [] => True
  | fs, e :: rest => e ∈ fs.ents ∧ 2 ≤ e.path.length ∧ (fs.del e.path).WF ∧ EChain (fs.del e.path) rest

def inTreePath (d : P) : Bool := d == ["W"] || isUnder ["W"] d

theorem watchedDir_parent_of_mem {fs : FS} (hwf : fs.WF) {e : Ent} (he : e ∈ fs.ents) (h2 : 2 ≤ e.path.length) :
    watchedDir fs true (parentOf e.path) = inTreePath (parentOf e.path) := by
  rcases hwf.parent he with h | h | h
  · rw [h] at h2; simp at h2
  · rw [h] at h2; simp at h2
  · simp [watchedDir, inTreePath, h.2]

theorem removeAll_ok {fs : FS} {k : Kern} {lib : Lib} (inv : InvRec fs k lib) (es : List Ent) (hch : EChain fs es) :
    ∃ lib' levs,
      (∀ fsX kX, libBatch fsX kX lib (removeAll fs k es).2.2 = some (kX, lib', levs)) ∧
      InvRec (removeAll fs k es).1 (removeAll fs k es).2.1 lib' ∧
      (∀ l ∈ levs, l.flag = .deleteSelf ∨ l.flag = .ignored ∨ l.flag = .delete) ∧
      (∀ l ∈ levs, l.flag = .deleteSelf → l.src ≠ ["W"]) ∧
      (∀ fsX full, (levs.filter (fun l => l.flag != .ignored)).flatMap (fun l => (emit fsX true full (.one l)).1) =
        es.flatMap (fun e => if inTreePath (parentOf e.path) then evDeleted e.isDir e.path else [])) := by
  induction es generalizing fs k lib with
  | nil =>
    exact ⟨lib, [], by intro fsX kX; rfl, by simpa [removeAll_nil] using inv, by simp, by simp, by simp⟩
  | cons e rest ih =>
    obtain ⟨he, h2, hwf', hrest⟩ := hch
    obtain ⟨lib1, levs1, ok⟩ := removeEntry_step inv he h2 hwf'
    have inv1 := ok.inv
    rw [← ok.fsEq] at inv1 hrest
    obtain ⟨lib2, levs2, hb2, inv2, fl2, nr2, ev2⟩ := ih inv1 hrest
    refine ⟨lib2, levs1 ++ levs2, ?_, ?_, ?_, ?_, ?_⟩
    · intro fsX kX
      rw [removeAll_cons]
      simp only
      rw [libBatch_append fsX kX lib _ _ (ok.batch fsX kX), hb2 fsX kX]
    · rw [removeAll_cons]; exact inv2
    · intro l hl
      rcases List.mem_append.mp hl with h | h
      · exact ok.flags l h
      · exact fl2 l h
    · intro l hl
      rcases List.mem_append.mp hl with h | h
      · exact ok.notRoot l h
      · exact nr2 l h
    · intro fsX full
      rw [List.filter_append, List.flatMap_append, ok.events fsX full, ev2 fsX full, List.flatMap_cons,
        watchedDir_parent_of_mem inv.wf he h2]

/-- the chain for the descendants of `p` still to be removed, in an order in which nothing comes after
    something above it, followed by `p` itself -/
theorem echain_of_order {fs : FS} (hwf : fs.WF) (p : P) (hp2 : 2 ≤ p.length) (ep : Ent) (hep : ep ∈ fs.ents) (hepp : ep.path = p) :
    ∀ (rem : List Ent) (fs : FS), fs.WF → ep ∈ fs.ents →
      (∀ a ∈ rem, isUnder p a.path = true ∧ a ∈ fs.ents) →
      (∀ x ∈ fs.ents, isUnder p x.path = true → x ∈ rem) →
      (rem.map Ent.path).Pairwise (fun a b => isUnder a b = false) → (rem.map Ent.path).Nodup →
      EChain fs (rem ++ [ep]) := by
  intro rem
  induction rem with
  | nil =>
    intro fs hwf hep _ hdesc _ _
    refine ⟨hep, hepp ▸ hp2, ?_, trivial⟩
    rw [hepp]
    apply hwf.del hp2
    intro x hx
    by_cases hl : x.path.length < 2
    · exact Or.inr hl
    · left; intro hpar
      have hnn : x.path ≠ [] := by intro h; rw [h] at hl; simp at hl
      have := hdesc x hx (isUnder_of_parent hnn (Or.inl hpar))
      cases this
  | cons a rest ih =>
    intro fs hwf hep hrem hdesc hpw hnd
    simp only [List.map_cons, List.pairwise_cons, List.nodup_cons] at hpw hnd
    have ha := hrem a (List.mem_cons_self ..)
    have ha2 : 2 ≤ a.path.length := by have := isUnder_length ha.1; omega
    have hleaf : ∀ x ∈ fs.ents, parentOf x.path ≠ a.path ∨ x.path.length < 2 := by
      intro x hx
      by_cases hl : x.path.length < 2
      · exact Or.inr hl
      · left; intro hpar
        have hnn : x.path ≠ [] := by intro h; rw [h] at hl; simp at hl
        have hxa : isUnder a.path x.path = true := isUnder_of_parent hnn (Or.inl hpar)
        have hxp : isUnder p x.path = true := isUnder_trans ha.1 hxa
        have hxr := hdesc x hx hxp
        rcases List.mem_cons.mp hxr with h | h
        · subst h; rw [isUnder_irrefl] at hxa; cases hxa
        · have := hpw.1 x.path (List.mem_map.mpr ⟨x, h, rfl⟩)
          rw [hxa] at this; cases this
    have hwf' := hwf.del ha2 hleaf
    refine ⟨ha.2, ha2, hwf', ?_⟩
    apply ih (fs.del a.path) hwf'
    · exact FS.mem_del.mpr ⟨hep, by rw [hepp]; exact isUnder_ne ha.1⟩
    · intro b hb
      have hb' := hrem b (List.mem_cons_of_mem _ hb)
      refine ⟨hb'.1, FS.mem_del.mpr ⟨hb'.2, ?_⟩⟩
      intro hh; exact hnd.1 (hh ▸ List.mem_map.mpr ⟨b, hb, rfl⟩)
    · intro x hx hxp
      obtain ⟨hx1, hx2⟩ := FS.mem_del.mp hx
      rcases List.mem_cons.mp (hdesc x hx1 hxp) with h | h
      · subst h; exact absurd rfl hx2
      · exact h
    · exact hpw.2
    · exact hnd.2

end WD.Pipe

namespace WD.Pipe

theorem flatMap_congr' {α β : Type} {f g : α → List β} : ∀ {l : List α}, (∀ x ∈ l, f x = g x) → l.flatMap f = l.flatMap g
  | [], _ => rfl
  | a :: l, h => by
    simp only [List.flatMap_cons]
    rw [h a (List.mem_cons_self ..), flatMap_congr' (fun x hx => h x (List.mem_cons_of_mem _ hx))]

theorem filterMap_find_paths {fs : FS} (order : List P) (h : ∀ q ∈ order, fs.exists q = true) :
    (order.filterMap fs.find?).map Ent.path = order := by
  induction order with
  | nil => rfl
  | cons q rest ih =>
    obtain ⟨e, he⟩ := FS.exists_iff.mp (h q (List.mem_cons_self ..))
    simp only [List.filterMap_cons, he, List.map_cons, (FS.find?_some he).2]
    rw [ih (fun x hx => h x (List.mem_cons_of_mem _ hx))]

theorem mem_filterMap_find {fs : FS} {order : List P} {e : Ent} (h : e ∈ order.filterMap fs.find?) :
    e ∈ fs.ents ∧ e.path ∈ order := by
  obtain ⟨q, hq, he⟩ := List.mem_filterMap.mp h
  have := FS.find?_some he
  exact ⟨this.1, this.2 ▸ hq⟩

theorem step_rmtreeOrd (s : Sys) (p : P) (order : List P) (inv : InvRec s.fs s.k s.lib) (hs : s.stopped = false)
    (hc : s.crashed = false) (hv : validOp s.fs (.rmtreeOrd p order) = true) : StepRec s (.rmtreeOrd p order) := by
  have hv' := hv
  simp only [validOp, validRmtree, Bool.and_eq_true, decide_eq_true_eq, List.all_eq_true] at hv'
  obtain ⟨⟨⟨⟨⟨hp2, hdir⟩, hall⟩, hdesc⟩, hnd⟩, hpw⟩ := hv'
  obtain ⟨e, he, _⟩ := FS.isDir_iff.mp hdir
  have hem := FS.find?_some he
  have hex : ∀ q ∈ order, s.fs.exists q = true := fun q hq => (hall q hq).2
  have hpaths := filterMap_find_paths (fs := s.fs) order hex
  have hch : EChain s.fs (order.filterMap s.fs.find? ++ [e]) := by
    apply echain_of_order inv.wf p hp2 e hem.1 hem.2 _ s.fs inv.wf hem.1
    · intro a ha
      obtain ⟨h1, h2⟩ := mem_filterMap_find ha
      exact ⟨(hall _ h2).1, h1⟩
    · intro x hx hxp
      have : x ∈ s.fs.descendants p := by unfold FS.descendants; exact List.mem_filter.mpr ⟨hx, hxp⟩
      have hc := hdesc x this
      simp only [List.contains_iff_mem] at hc
      exact List.mem_filterMap.mpr ⟨x.path, hc, inv.wf.find_mem hx⟩
    · rw [hpaths]; exact hpw
    · rw [hpaths]; exact hnd
  obtain ⟨lib', levs, hb, inv', fl, nr, ev⟩ := removeAll_ok inv _ hch
  have hk : kernelOp s.fs s.k (.rmtreeOrd p order) =
      ((removeAll s.fs s.k (order.filterMap s.fs.find? ++ [e])).1, (removeAll s.fs s.k (order.filterMap s.fs.find? ++ [e])).2.1,
       (removeAll s.fs s.k (order.filterMap s.fs.find? ++ [e])).2.2) := by
    simp [kernelOp, he]
  apply step_removals s _ hs hc hk (hb _ _) fl nr
  · rw [ev]
    simp only [contract, contractRemovals, he, Option.toList_some]
    apply flatMap_congr'
    intro x hx
    have hxm : x ∈ s.fs.ents ∧ 2 ≤ x.path.length := by
      rcases List.mem_append.mp hx with h | h
      · obtain ⟨h1, h2⟩ := mem_filterMap_find h
        have := isUnder_length (hall _ h2).1
        exact ⟨h1, by omega⟩
      · simp at h; subst h; exact ⟨hem.1, hem.2 ▸ hp2⟩
    rw [watchedDir_parent_of_mem inv.wf hxm.1 hxm.2]
  · simp [contract]
  · exact inv'

theorem step_rmtree (s : Sys) (p : P) (inv : InvRec s.fs s.k s.lib) (hs : s.stopped = false)
    (hc : s.crashed = false) (hv : validOp s.fs (.rmtree p) = true) : StepRec s (.rmtree p) := by
  have h := step_rmtreeOrd s p (canonOrder s.fs p) inv hs hc hv
  have hop : s.op (.rmtree p) = s.op (.rmtreeOrd p (canonOrder s.fs p)) := by
    unfold Sys.op
    have : kernelOp s.fs s.k (.rmtree p) = kernelOp s.fs s.k (.rmtreeOrd p (canonOrder s.fs p)) := rfl
    rw [this]
  have hco : contract s.fs true s.full (.rmtree p) = contract s.fs true s.full (.rmtreeOrd p (canonOrder s.fs p)) := rfl
  exact ⟨by rw [hop, hco]; exact h.events, by rw [hop, hco]; exact h.stop, by rw [hop]; exact h.ncrash,
    by rw [hop]; exact h.full, by rw [hop, hco]; exact h.inv⟩

end WD.Pipe
