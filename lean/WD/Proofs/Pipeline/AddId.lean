/- `_add_dir_watch` over a tree that is watched already (every directory under its current path): nothing changes -/
import WD.Proofs.Pipeline.RenameIn
namespace WD.Pipe

theorem map_id_of_unique {α : Type} (l : List α) (f : α → α) (h : ∀ x ∈ l, f x = x) : l.map f = l := by
  induction l with
  | nil => rfl
  | cons x xs ih =>
    simp only [List.map_cons]
    rw [h x (by simp), ih (fun y hy => h y (List.mem_cons_of_mem _ hy))]

theorem eq_of_nodup_map {α β : Type} (f : α → β) : ∀ (l : List α), (l.map f).Nodup → ∀ x ∈ l, ∀ y ∈ l, f x = f y → x = y := by
  intro l
  induction l with
  | nil => intro _ x hx; simp at hx
  | cons a l ih =>
    intro hn x hx y hy hxy
    simp only [List.map_cons, List.nodup_cons] at hn
    simp only [List.mem_cons] at hx hy
    rcases hx with rfl | hx <;> rcases hy with rfl | hy
    · rfl
    · exact absurd (List.mem_map.mpr ⟨y, hy, hxy.symm⟩) hn.1
    · exact absurd (List.mem_map.mpr ⟨x, hx, hxy⟩) hn.1
    · exact ih hn.2 x hx y hy hxy

theorem setP_id {l : List (P × Nat)} {p : P} {w : Nat} (hn : (l.map (·.1)).Nodup) (h : lookupP l p = some w) : setP l p w = l := by
  unfold setP
  rw [h]
  simp only [Option.isSome_some, if_true]
  apply map_id_of_unique
  intro x hx
  split
  · next hxp =>
    have hxp' : x.1 = p := by simpa using hxp
    -- the only entry with key p is (p, w)
    unfold lookupP at h
    cases hf : l.find? (fun y => y.1 == p) with
    | none => rw [hf] at h; cases h
    | some y =>
      rw [hf] at h
      simp only [Option.map_some, Option.some.injEq] at h
      have hy := List.mem_of_find?_eq_some hf
      have hyp : y.1 = p := by simpa using List.find?_some hf
      have : x = y := by
        exact eq_of_nodup_map (·.1) l hn x hx y hy (by rw [hxp', hyp])
      subst this
      exact Prod.ext hxp'.symm h.symm
  · rfl

theorem setW_id {l : List (Nat × P)} {w : Nat} {p : P} (hn : (l.map (·.1)).Nodup) (h : lookupW l w = some p) : setW l w p = l := by
  unfold setW
  rw [h]
  simp only [Option.isSome_some, if_true]
  apply map_id_of_unique
  intro x hx
  split
  · next hxw =>
    have hxw' : x.1 = w := by simpa using hxw
    unfold lookupW at h
    cases hf : l.find? (fun y => y.1 == w) with
    | none => rw [hf] at h; cases h
    | some y =>
      rw [hf] at h
      simp only [Option.map_some, Option.some.injEq] at h
      have hy := List.mem_of_find?_eq_some hf
      have hyw : y.1 = w := by simpa using List.find?_some hf
      have : x = y := by
        exact eq_of_nodup_map (·.1) l hn x hx y hy (by rw [hxw', hyw])
      subst this
      exact Prod.ext hxw'.symm h.symm
  · rfl

variable {fs : FS} {k : Kern} {lib : Lib} {cov : Ent → Prop} {z : Option Nat}

/-- adding a watch for a directory that is watched under this very path changes nothing -/
theorem addStep_id (inv : InvOn cov z fs k lib) {e : Ent} (he : e ∈ fs.ents) (hd : inTreeDir e = true) (hc : cov e) :
    addStep fs (k, lib) e = (k, lib) := by
  obtain ⟨wd, h1, _, h3, h4⟩ := inv.watched he hd hc
  -- the descriptor is known under this path only: nothing stale to drop
  have hfil : lib.wdForPath.filter (fun x => x.2 != wd || x.1 == e.path) = lib.wdForPath := by
    rw [List.filter_eq_self]
    intro x hx
    by_cases hxw : x.2 = wd
    · have hl : lookupP lib.wdForPath x.1 = some x.2 := lookupP_of_mem inv.wfpNodup (by cases x; exact hx)
      have := inv.wfpInv _ _ hl
      rw [hxw, h3] at this
      simp [Option.some.inj this]
    · simp [hxw]
  unfold addStep addWatch
  simp only [inv.wf.find_mem he, h1]
  rw [hfil, setP_id inv.wfpNodup h4, setW_id inv.pfwNodup h3]

theorem addTreeWatches_id (inv : InvOn cov z fs k lib) (p : P)
    (h : ∀ e ∈ (fs.find? p).toList ++ (fs.descendants p).filter (·.isDir), e ∈ fs.ents ∧ inTreeDir e = true ∧ cov e) :
    addTreeWatches fs k lib p = (k, lib) := by
  rw [addTreeWatches_eq]
  generalize (fs.find? p).toList ++ (fs.descendants p).filter (·.isDir) = ds at h
  induction ds with
  | nil => rfl
  | cons d rest ih =>
    simp only [List.foldl_cons]
    obtain ⟨h1, h2, h3⟩ := h d (by simp)
    rw [addStep_id inv h1 h2 h3]
    exact ih (fun e he => h e (List.mem_cons_of_mem _ he))

end WD.Pipe
