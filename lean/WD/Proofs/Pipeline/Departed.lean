/- the directories the emitter forgets after a burst: none, whenever no unmatched MOVED_FROM of a directory was read -/
import WD.Model.PipelineBurst
namespace WD.Pipe

theorem movedOutNow_nil {gs : List Grouped} (h : movedOut gs = []) : movedOutNow gs = [] := by
  induction gs with
  | nil => rfl
  | cons g rest ih =>
    cases g with
    | one e =>
      unfold movedOut at h
      simp only [List.filterMap_cons] at h
      by_cases hc : (e.flag == .movedFrom && e.isDir) = true
      · simp [hc] at h
      · simp only [hc] at h
        simp only [movedOutNow, hc]
        exact ih (by unfold movedOut; simpa using h)
    | two f t =>
      unfold movedOut at h
      simp only [List.filterMap_cons] at h
      simp only [movedOutNow]
      exact ih (by unfold movedOut; exact h)

theorem departed_nil {gs : List Grouped} (n : Nat) (h : movedOut gs = []) : departed n gs = [] := by
  unfold departed; split
  · exact h
  · exact movedOutNow_nil h

theorem departed_one (gs : List Grouped) : departed 1 gs = movedOut gs := by simp [departed]

end WD.Pipe
