/- the reader's treatment of the two halves of a move; renames that move no directory of the tree -/
import WD.Proofs.Pipeline.RenameKernel
set_option linter.unusedSimpArgs false
namespace WD.Pipe

variable {fs : FS} {k : Kern} {lib : Lib} {p q : P} {e : Ent} {cov : Ent → Prop} {z : Option Nat}

def Lib.remember (lib : Lib) (c : Nat) (src : P) : Lib := { lib with movedFrom := (c, src) :: lib.movedFrom }

theorem libRecord_from (fs : FS) (k : Kern) (lib : Lib) (wd : Nat) (d : Bool) (c : Nat) (n : String) (wp : P)
    (hw : lookupW lib.pathForWd wd = some wp) :
    libRecord fs k lib ⟨wd, .movedFrom, d, c, some n⟩ =
      some (k, lib.remember c (wp ++ [n]), [⟨wd, .movedFrom, d, c, some n, wp ++ [n]⟩]) := by
  simp [libRecord, hw, Lib.remember]

theorem InvOn.remember (inv : InvOn cov z fs k lib) (c : Nat) (src : P) (hc : c < k.nextCookie) :
    InvOn cov z fs k (lib.remember c src) :=
  { wf := inv.wf, isRec := inv.isRec, kwd := inv.kwd, kino := inv.kino, klt := inv.klt, good := inv.good,
    cover := inv.cover, pfwDom := inv.pfwDom, zlt := inv.zlt, zdead := inv.zdead, wfpInv := inv.wfpInv,
    wfpNodup := inv.wfpNodup, pfwNodup := inv.pfwNodup,
    cookies := by
      intro x hx
      simp only [Lib.remember, List.mem_cons] at hx
      rcases hx with rfl | hx
      · exact hc
      · exact inv.cookies x hx }

theorem find_cookie_fresh {l : List (Nat × P)} {c : Nat} (h : ∀ x ∈ l, x.1 < c) : l.find? (fun x => x.1 == c) = none := by
  rw [List.find?_eq_none]; intro x hx; have := h x hx; simp; omega

/-- a MOVED_TO whose other half was not seen (cookie unknown), not a directory: nothing to do -/
theorem libRecord_to_lone_file (fs : FS) (k : Kern) (lib : Lib) (wd : Nat) (c : Nat) (n : String) (wp : P)
    (hw : lookupW lib.pathForWd wd = some wp) (hfresh : ∀ x ∈ lib.movedFrom, x.1 < c) :
    libRecord fs k lib ⟨wd, .movedTo, false, c, some n⟩ = some (k, lib, [⟨wd, .movedTo, false, c, some n, wp ++ [n]⟩]) := by
  simp [libRecord, hw, find_cookie_fresh hfresh]

/-- ... a directory: it arrived from outside and is watched now, with what it holds -/
theorem libRecord_to_lone_dir (fs : FS) (k : Kern) (lib : Lib) (wd : Nat) (c : Nat) (n : String) (wp : P)
    (hw : lookupW lib.pathForWd wd = some wp) (hfresh : ∀ x ∈ lib.movedFrom, x.1 < c) (hrec : lib.recursive = true) :
    libRecord fs k lib ⟨wd, .movedTo, true, c, some n⟩ =
      some ((addTreeWatches fs k lib (wp ++ [n])).1, (addTreeWatches fs k lib (wp ++ [n])).2,
            [⟨wd, .movedTo, true, c, some n, wp ++ [n]⟩]) := by
  simp [libRecord, hw, find_cookie_fresh hfresh, hrec]

/-- a MOVED_TO right after its MOVED_FROM, the source is not a key of the path map (a file) -/
theorem libRecord_to_paired_file (fs : FS) (k : Kern) (lib : Lib) (wd : Nat) (c : Nat) (n : String) (wp ms : P)
    (hw : lookupW lib.pathForWd wd = some wp) (hkey : lookupP lib.wdForPath ms = none) :
    libRecord fs k (lib.remember c ms) ⟨wd, .movedTo, false, c, some n⟩ =
      some (k, lib.remember c ms, [⟨wd, .movedTo, false, c, some n, wp ++ [n]⟩]) := by
  simp [libRecord, Lib.remember, hw, hkey]

/- ---------------- grouping and emission of the few shapes a rename produces ---------------- -/

theorem group_append_noTo (a b : List LEv) (h : ∀ x ∈ b, x.flag ≠ .movedTo) : group (a ++ b) = group a ++ b.map .one := by
  unfold group
  rw [List.foldl_append]
  rw [foldl_noTo _ _ _ b h]
  intro acc x hx; simp [hx]

theorem gsOf_append_noTo (a b : List LEv) (h : ∀ x ∈ b, x.flag ≠ .movedTo) :
    gsOf (a ++ b) = gsOf a ++ (b.filter (fun l => l.flag != .ignored)).map .one := by
  unfold gsOf
  rw [group_append_noTo a b h, List.filter_append, List.filter_map]
  congr 1

end WD.Pipe

namespace WD.Pipe
variable {fs : FS} {k : Kern} {lib : Lib} {p q : P} {e : Ent} {cov : Ent → Prop} {z : Option Nat}

/-- does the path lie in the watched tree (the root or below it)?  for paths of length ≥ 2: is its first component `W`? -/
theorem isUnderW_append {a r : P} (ha : 2 ≤ a.length) : isUnder ["W"] (a ++ r) = isUnder ["W"] a := by
  match a, ha with
  | x :: y :: t, _ =>
    simp [isUnder]

theorem isUnderW_of_under {a x : P} (ha : 2 ≤ a.length) (h : isUnder a x = true) : isUnder ["W"] x = isUnder ["W"] a := by
  obtain ⟨r, _, rfl⟩ := isUnder_iff.mp h
  exact isUnderW_append ha

theorem isUnderW_iff_parent {fs : FS} {a : P} (ha : 2 ≤ a.length) (hpar : fs.isDir (parentOf a) = true) :
    isUnder ["W"] a = watchedDir fs true (parentOf a) := by
  have := inTreeDir_of_parent ha hpar 0
  have hne : a ≠ ["W"] := by intro h; subst h; simp at ha
  have e1 : (a == ["W"]) = false := by simp [hne]
  simp only [inTreeDir, Bool.true_and, e1, Bool.false_or] at this
  exact this

/-- is a moved entry (at or below `p`) a directory of the tree — before, and after the move? -/
theorem RenameOK.moved_inTree (ok : RenameOK fs p q e) (hwf : fs.WF) {x : Ent} (hx : x.path = p ∨ isUnder p x.path = true) :
    inTreeDir x = (x.isDir && watchedDir fs true (parentOf p)) ∧
    inTreeDir (rwEnt p q x) = (x.isDir && watchedDir fs true (parentOf q)) := by
  have hem := FS.find?_some ok.he
  have hppar : fs.isDir (parentOf p) = true := by
    rcases hwf.parent hem.1 with h | h | h
    · rw [hem.2] at h; rw [h] at ok; have := ok.hp2; simp at this
    · rw [hem.2] at h; rw [h] at ok; have := ok.hp2; simp at this
    · rw [hem.2] at h; exact h.2
  have hp := isUnderW_iff_parent ok.hp2 hppar
  have hq := isUnderW_iff_parent ok.hq2 ok.hqpar
  have hlen : 2 ≤ x.path.length := by
    rcases hx with h | h
    · rw [h]; exact ok.hp2
    · have := isUnder_length h; have := ok.hp2; omega
  have hnW : x.path ≠ ["W"] := by intro h; rw [h] at hlen; simp at hlen
  have hxu : isUnder ["W"] x.path = isUnder ["W"] p := by
    rcases hx with h | h
    · rw [h]
    · exact isUnderW_of_under ok.hp2 h
  have hrlen : 2 ≤ (rwPath p q x.path).length := rwPath_length_two ok hlen
  have hrW : rwPath p q x.path ≠ ["W"] := by intro h; rw [h] at hrlen; simp at hrlen
  have hru : isUnder ["W"] (rwPath p q x.path) = isUnder ["W"] q := by
    rcases hx with h | h
    · rw [h, rwPath_at]
    · rw [rwPath_under h]; exact isUnderW_append ok.hq2
  have e1 : (x.path == ["W"]) = false := by simp [hnW]
  have e2 : (rwPath p q x.path == ["W"]) = false := by simp [hrW]
  constructor
  · simp [inTreeDir, e1, hxu, hp]
  · simp [inTreeDir, rwEnt, e2, hru, hq]

theorem rwEnt_fixed {x : Ent} (h1 : x.path ≠ p) (h2 : isUnder p x.path = false) : rwEnt p q x = x := by
  simp [rwEnt, rwPath_other h1 h2]

/-- a file has nothing below it -/
theorem FS.WF.file_no_desc (hwf : fs.WF) {f : Ent} (hf : fs.find? p = some f) (hfile : f.isDir = false) (hp : p ≠ []) :
    ∀ x ∈ fs.ents, isUnder p x.path = false := by
  intro x hx
  cases hu : isUnder p x.path with
  | false => rfl
  | true =>
    have := hwf.ancestor_dir _ x hx rfl p hp hu
    obtain ⟨d, hd, hdd⟩ := FS.isDir_iff.mp this
    rw [hf] at hd; cases hd; rw [hfile] at hdd; cases hdd

/-- a rename that moves no directory of the tree and lets none arrive: the tree's directories are what they were -/
theorem RenameOK.static_dirs (ok : RenameOK fs p q e) (hwf : fs.WF)
    (hstatic : e.isDir = false ∨ (watchedDir fs true (parentOf p) = false ∧ watchedDir fs true (parentOf q) = false)) :
    ∀ y, inTreeDir y = true → (y ∈ (fs.renamed p q).ents ↔ y ∈ (fs.del q).ents) := by
  have hem := FS.find?_some ok.he
  have hmoved_not : ∀ x ∈ fs.ents, (x.path = p ∨ isUnder p x.path = true) → inTreeDir x = false ∧ inTreeDir (rwEnt p q x) = false := by
    intro x hx hm
    have := ok.moved_inTree hwf hm
    rcases hstatic with h | h
    · have hxe : x = e := by
        rcases hm with h1 | h1
        · exact hwf.path_inj hx hem.1 (h1.trans hem.2.symm)
        · have := hwf.file_no_desc ok.he h (ne_nil_of_two_le ok.hp2) x hx; rw [h1] at this; cases this
      subst hxe; simp [this.1, this.2, h]
    · simp [this.1, this.2, h.1, h.2]
  intro y hy
  rw [FS.mem_renamed, FS.mem_del]
  constructor
  · rintro ⟨x, hx, hxq, rfl⟩
    by_cases hm : x.path = p ∨ isUnder p x.path = true
    · rw [(hmoved_not x hx hm).2] at hy; cases hy
    · have h1 : x.path ≠ p := fun h => hm (Or.inl h)
      have h2 : isUnder p x.path = false := by
        cases h : isUnder p x.path with
        | false => rfl
        | true => exact absurd (Or.inr h) hm
      rw [rwEnt_fixed h1 h2]; exact ⟨hx, hxq⟩
  · rintro ⟨hx, hxq⟩
    refine ⟨y, hx, hxq, ?_⟩
    by_cases hm : y.path = p ∨ isUnder p y.path = true
    · rw [(hmoved_not y hx hm).1] at hy; cases hy
    · have h1 : y.path ≠ p := fun h => hm (Or.inl h)
      have h2 : isUnder p y.path = false := by
        cases h : isUnder p y.path with
        | false => rfl
        | true => exact absurd (Or.inr h) hm
      rw [rwEnt_fixed h1 h2]

end WD.Pipe
