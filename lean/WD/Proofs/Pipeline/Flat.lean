/- the non-recursive watch: one kernel watch, on the root; only the root's direct children are reported -/
import WD.Proofs.Pipeline.ReplayRun
set_option linter.unusedSimpArgs false
namespace WD.Pipe

structure InvFlat (fs : FS) (k : Kern) (lib : Lib) : Prop where
  wf : fs.WF
  notRec : lib.recursive = false
  root : ∃ r w0, fs.find? ["W"] = some r ∧ r.isDir = true ∧ k.watches = [(w0, r.ino)] ∧
           lib.pathForWd = [(w0, ["W"])] ∧ lib.wdForPath = [(["W"], w0)]
  cookies : ∀ x ∈ lib.movedFrom, x.1 < k.nextCookie
  srcs : ∀ x ∈ lib.movedFrom, x.2 ≠ ["W"]

/-- the result of one drained operation under a non-recursive watch -/
structure StepFlat (s : Sys) (op : Op) : Prop where
  events : (s.op op).2 = (contract s.fs false s.full op).1
  stop : (s.op op).1.stopped = (contract s.fs false s.full op).2
  ncrash : (s.op op).1.crashed = false
  full : (s.op op).1.full = s.full
  inv : (contract s.fs false s.full op).2 = false → InvFlat (s.op op).1.fs (s.op op).1.k (s.op op).1.lib

variable {fs : FS} {k : Kern} {lib : Lib}

theorem watchedDir_flat (fs : FS) (d : P) : watchedDir fs false d = (fs.isDir d && d == ["W"]) := by
  simp [watchedDir]

/-- the record(s) the kernel queues on the parent directory of `p`: only the root is watched -/
theorem InvFlat.parent_recs (inv : InvFlat fs k lib) (p : P) :
    (watchedDir fs false (parentOf p) = true ∧ parentOf p = ["W"] ∧ ∃ w0, lookupW lib.pathForWd w0 = some ["W"] ∧ ∀ f b c,
        k.onEntry ((fs.find? (parentOf p)).map (·.ino)) f b c (baseName p) = [⟨w0, f, b, c, some (baseName p)⟩]) ∨
    (watchedDir fs false (parentOf p) = false ∧ ∀ f b c,
        k.onEntry ((fs.find? (parentOf p)).map (·.ino)) f b c (baseName p) = []) := by
  obtain ⟨r, w0, hr, hrd, hkw, hpfw, _⟩ := inv.root
  have hrm := FS.find?_some hr
  by_cases hp : parentOf p = ["W"]
  · left
    refine ⟨by rw [watchedDir_flat, hp]; simp [FS.isDir, hr, hrd], hp, w0, by simp [hpfw, lookupW_cons], ?_⟩
    intro f b c
    rw [hp, hr]
    have : k.wdOfIno r.ino = some w0 := by simp [Kern.wdOfIno, hkw]
    simp [Kern.onEntry, this]
  · right
    have hb : (parentOf p == ["W"]) = false := by simp [hp]
    refine ⟨by rw [watchedDir_flat, hb]; simp, ?_⟩
    intro f b c
    cases hf : fs.find? (parentOf p) with
    | none => simp [Kern.onEntry]
    | some d =>
      have hd := FS.find?_some hf
      have hne : d.ino ≠ r.ino := by
        intro hi; have := inv.wf.ino_inj hd.1 hrm.1 hi; subst this; exact hp (hd.2.symm.trans hrm.2)
      have : k.wdOfIno d.ino = none := by
        rw [wdOfIno_none]; intro w hw; rw [hkw] at hw; simp at hw; subst hw; exact fun h => hne h.symm
      simp [Kern.onEntry, this]

/-- an entry other than the root carries no watch -/
theorem InvFlat.unwatched (inv : InvFlat fs k lib) {e : Ent} (he : e ∈ fs.ents) (hp : e.path ≠ ["W"]) : k.wdOfIno e.ino = none := by
  obtain ⟨r, w0, hr, _, hkw, _, _⟩ := inv.root
  have hrm := FS.find?_some hr
  rw [wdOfIno_none]; intro w hw; rw [hkw] at hw; simp at hw; subst hw
  intro hi; have := inv.wf.ino_inj hrm.1 he hi; subst this; exact hp hrm.2

/-- MOVED_TO under a non-recursive watch: the maps are left alone (their only key is the root) -/
theorem libRecord_to_flat (fs : FS) (k : Kern) (lib : Lib) (wd : Nat) (d : Bool) (c : Nat) (n : String) (w0 : Nat)
    (hw : lookupW lib.pathForWd wd = some ["W"]) (hrec : lib.recursive = false) (hwfp : lib.wdForPath = [(["W"], w0)])
    (hsrc : ∀ x ∈ lib.movedFrom, x.2 ≠ ["W"]) :
    libRecord fs k lib ⟨wd, .movedTo, d, c, some n⟩ = some (k, lib, [⟨wd, .movedTo, d, c, some n, ["W", n]⟩]) := by
  simp only [libRecord, hw, hrec, Bool.false_and, Bool.false_eq_true, if_false]
  cases hf : lib.movedFrom.find? (fun x => x.1 == c) with
  | none => simp
  | some x =>
    have hx := List.mem_of_find?_eq_some hf
    have : lookupP lib.wdForPath x.2 = none := by
      rw [hwfp, lookupP_cons]; simp [lookupP_nil]; exact fun h => hsrc x hx h.symm
    simp [this]

/-- the common shape under a non-recursive watch: records on the root's watch that do not touch the maps -/
theorem step_simple_flat (s : Sys) (op : Op) (inv : InvFlat s.fs s.k s.lib) (hs : s.stopped = false) (hc : s.crashed = false)
    (fs1 : FS) (recs : List NRec) (path : NRec → P)
    (hk : kernelOp s.fs s.k op = (fs1, s.k, recs))
    (hr : ∀ r ∈ recs, simpleFlag false r.flag r.isDir = true ∧ lookupW s.lib.pathForWd r.wd = some (path r))
    (hinv : InvFlat fs1 s.k s.lib)
    (hnostop : ∀ r ∈ recs, (emit fs1 false s.full (.one (r.toLEv (path r)))).2 = false)
    (hev : recs.flatMap (fun r => (emit fs1 false s.full (.one (r.toLEv (path r)))).1) = (contract s.fs false s.full op).1)
    (hst : (contract s.fs false s.full op).2 = false) : StepFlat s op := by
  have hl : libBatch fs1 s.k s.lib recs = some (s.k, s.lib, recs.map (fun r => r.toLEv (path r))) :=
    libBatch_simple fs1 s.k s.lib recs path (by rw [inv.notRec]; exact hr)
  have hflags : ∀ e ∈ recs.map (fun r => r.toLEv (path r)), e.flag ≠ .movedTo ∧ e.flag ≠ .ignored := by
    intro e he
    obtain ⟨r, hr1, rfl⟩ := List.mem_map.mp he
    have := (hr r hr1).1
    simp only [NRec.toLEv]
    constructor <;> intro hf <;> simp [simpleFlag, hf] at this
  have hgs := gsOf_simple _ hflags
  have hf : forgetAll fs1 s.k s.lib (if s.lib.recursive then movedOut (gsOf (recs.map (fun r => r.toLEv (path r)))) else []) = some (s.k, s.lib) := by
    rw [inv.notRec]; simp [forgetAll_nil]
  have hop := Sys.op_eq s op hs hc hk hl hf
  have hem : emitAll fs1 s.lib.recursive s.full (gsOf (recs.map (fun r => r.toLEv (path r)))) =
      ((contract s.fs false s.full op).1, false) := by
    rw [hgs, inv.notRec, emitAll_nostop]
    · rw [← hev]; simp [List.flatMap_map]
    · intro g hg
      obtain ⟨e, he, rfl⟩ := List.mem_map.mp hg
      obtain ⟨r, hr1, rfl⟩ := List.mem_map.mp he
      exact hnostop r hr1
  rw [hem] at hop
  exact ⟨by rw [hop], by rw [hop, hst], by rw [hop]; exact hc, by rw [hop], fun _ => by rw [hop]; exact hinv⟩

/-- the file system changes somewhere else: the root entry stays what it is -/
theorem InvFlat.fs_change {fs1 : FS} (inv : InvFlat fs k lib) (hwf : fs1.WF) (h : fs1.find? ["W"] = fs.find? ["W"]) : InvFlat fs1 k lib :=
  { wf := hwf, notRec := inv.notRec, root := by rw [h]; exact inv.root, cookies := inv.cookies, srcs := inv.srcs }

end WD.Pipe

namespace WD.Pipe

theorem find_W_add {fs : FS} {p : P} (hp : 2 ≤ p.length) (d : Bool) : (fs.add p d).find? ["W"] = fs.find? ["W"] := by
  rw [FS.find?_add]
  have : p ≠ ["W"] := by intro h; subst h; simp at hp
  simp [this]

theorem find_W_del {fs : FS} {p : P} (hp : 2 ≤ p.length) : (fs.del p).find? ["W"] = fs.find? ["W"] := by
  rw [FS.find?_del]
  have : (["W"] : P) ≠ p := by intro h; subst h; simp at hp
  simp [this]

theorem flat_create (s : Sys) (p : P) (inv : InvFlat s.fs s.k s.lib) (hs : s.stopped = false) (hc : s.crashed = false)
    (hv : validOp s.fs (.create p) = true) : StepFlat s (.create p) := by
  obtain ⟨hp, hne, hpar⟩ := validOp_create hv
  have hpb := snoc_parent_base (ne_nil_of_two_le hp)
  have hinv := inv.fs_change (inv.wf.add hp hne hpar false) (find_W_add hp false)
  rcases inv.parent_recs p with ⟨hw, hpw, w0, h1, hrec⟩ | ⟨hw, hrec⟩
  · apply step_simple_flat s _ inv hs hc (s.fs.add p false)
      [⟨w0, .create, false, 0, some (baseName p)⟩, ⟨w0, .open, false, 0, some (baseName p)⟩, ⟨w0, .closeWrite, false, 0, some (baseName p)⟩]
      (fun _ => parentOf p)
    · simp [kernelOp, hrec, FS.add]
    · intro r hr; simp at hr; rcases hr with rfl | rfl | rfl <;> simp [simpleFlag, h1, hpw]
    · exact hinv
    · intro r hr; simp at hr; rcases hr with rfl | rfl | rfl <;> simp [emit, NRec.toLEv]
    · simp [contract, hw, emit, NRec.toLEv, NRec.src, hpb, dirMod, mkEv]
    · simp [contract]
  · apply step_simple_flat s _ inv hs hc (s.fs.add p false) [] (fun _ => parentOf p)
    · simp [kernelOp, hrec, FS.add]
    · simp
    · exact hinv
    · simp
    · simp [contract, hw]
    · simp [contract]

theorem flat_mkdir (s : Sys) (p : P) (inv : InvFlat s.fs s.k s.lib) (hs : s.stopped = false) (hc : s.crashed = false)
    (hv : validOp s.fs (.mkdir p) = true) : StepFlat s (.mkdir p) := by
  obtain ⟨hp, hne, hpar⟩ := validOp_mkdir hv
  have hpb := snoc_parent_base (ne_nil_of_two_le hp)
  have hinv := inv.fs_change (inv.wf.add hp hne hpar true) (find_W_add hp true)
  rcases inv.parent_recs p with ⟨hw, hpw, w0, h1, hrec⟩ | ⟨hw, hrec⟩
  · apply step_simple_flat s _ inv hs hc (s.fs.add p true) [⟨w0, .create, true, 0, some (baseName p)⟩] (fun _ => parentOf p)
    · simp [kernelOp, hrec, FS.add]
    · intro r hr; simp at hr; subst hr; simp [simpleFlag, h1, hpw]
    · exact hinv
    · intro r hr; simp at hr; subst hr; simp [emit, NRec.toLEv]
    · simp [contract, hw, emit, NRec.toLEv, NRec.src, hpb, dirMod, mkEv]
    · simp [contract]
  · apply step_simple_flat s _ inv hs hc (s.fs.add p true) [] (fun _ => parentOf p)
    · simp [kernelOp, hrec, FS.add]
    · simp
    · exact hinv
    · simp
    · simp [contract, hw]
    · simp [contract]

theorem flat_write (s : Sys) (p : P) (inv : InvFlat s.fs s.k s.lib) (hs : s.stopped = false) (hc : s.crashed = false)
    (hv : validOp s.fs (.write p) = true) : StepFlat s (.write p) := by
  have hv' : s.fs.isFile p = true := by simpa [validOp] using hv
  obtain ⟨f, hf, _⟩ := FS.isFile_iff.mp hv'
  have hfm := FS.find?_some hf
  have hpb := snoc_parent_base (hfm.2 ▸ inv.wf.path_ne_nil hfm.1)
  rcases inv.parent_recs p with ⟨hw, hpw, w0, h1, hrec⟩ | ⟨hw, hrec⟩
  · apply step_simple_flat s _ inv hs hc s.fs
      [⟨w0, .open, false, 0, some (baseName p)⟩, ⟨w0, .modify, false, 0, some (baseName p)⟩, ⟨w0, .closeWrite, false, 0, some (baseName p)⟩]
      (fun _ => parentOf p)
    · simp [kernelOp, hrec]
    · intro r hr; simp at hr; rcases hr with rfl | rfl | rfl <;> simp [simpleFlag, h1, hpw]
    · exact inv
    · intro r hr; simp at hr; rcases hr with rfl | rfl | rfl <;> simp [emit, NRec.toLEv]
    · simp [contract, hw, emit, NRec.toLEv, NRec.src, hpb, dirMod, mkEv]
    · simp [contract]
  · apply step_simple_flat s _ inv hs hc s.fs [] (fun _ => parentOf p)
    · simp [kernelOp, hrec]
    · simp
    · exact inv
    · simp
    · simp [contract, hw]
    · simp [contract]

theorem flat_chmod (s : Sys) (p : P) (inv : InvFlat s.fs s.k s.lib) (hs : s.stopped = false) (hc : s.crashed = false)
    (hv : validOp s.fs (.chmod p) = true) : StepFlat s (.chmod p) := by
  have hv' : 2 ≤ p.length ∧ s.fs.exists p = true := by simpa [validOp] using hv
  obtain ⟨e, he⟩ := FS.exists_iff.mp hv'.2
  have hem := FS.find?_some he
  have hpb := snoc_parent_base (ne_nil_of_two_le hv'.1)
  have hnW : p ≠ ["W"] := by intro h; subst h; have := hv'.1; simp at this
  have hself : (if e.isDir then s.k.onSelf e.ino .attrib true else []) = [] := by
    simp [onSelf_none (inv.unwatched hem.1 (hem.2 ▸ hnW))]
  have hwp : (e.isDir && watchedDir s.fs false p) = false := by
    have hb : (p == ["W"]) = false := by simp [hnW]
    simp [watchedDir_flat, hb]
  rcases inv.parent_recs p with ⟨hw, hpw, w0, h1, hrec⟩ | ⟨hw, hrec⟩
  · apply step_simple_flat s _ inv hs hc s.fs [⟨w0, .attrib, e.isDir, 0, some (baseName p)⟩] (fun _ => parentOf p)
    · simp only [kernelOp, he, hself, hrec, List.nil_append]
    · intro r hr; simp at hr; subst hr; simp [simpleFlag, h1, hpw]
    · exact inv
    · intro r hr; simp at hr; subst hr; simp [emit, NRec.toLEv]
    · simp only [contract, he, hw, hwp]
      cases e.isDir <;> simp [emit, NRec.toLEv, NRec.src, hpb, mkEv]
    · simp [contract, he]
  · apply step_simple_flat s _ inv hs hc s.fs [] (fun _ => p)
    · simp only [kernelOp, he, hself, hrec, List.nil_append]
    · simp
    · exact inv
    · simp
    · simp [contract, he, hw, hwp]
    · simp [contract, he]

/-- removal of one entry other than the root: no record on the entry itself, one on the root if it is a direct child -/
theorem flat_removeEntry {fs : FS} {k : Kern} {lib : Lib} (inv : InvFlat fs k lib) {e : Ent} (he : e ∈ fs.ents) (hp2 : 2 ≤ e.path.length) :
    removeEntry fs k e = (fs.del e.path, k, k.onEntry ((fs.find? (parentOf e.path)).map (·.ino)) .delete e.isDir 0 (baseName e.path)) := by
  have hnW : e.path ≠ ["W"] := by intro h; rw [h] at hp2; simp at hp2
  have hun := inv.unwatched he hnW
  have hk1 : (if e.isDir then k.dropWatch e.ino else k) = k := by cases e.isDir <;> simp [dropWatch_unwatched hun]
  simp [removeEntry, onSelf_none hun, hk1, FS.del]

theorem flat_unlink (s : Sys) (p : P) (inv : InvFlat s.fs s.k s.lib) (hs : s.stopped = false) (hc : s.crashed = false)
    (hv : validOp s.fs (.unlink p) = true) : StepFlat s (.unlink p) := by
  have hv' : s.fs.isFile p = true := by simpa [validOp] using hv
  obtain ⟨f, hf, hfile⟩ := FS.isFile_iff.mp hv'
  have hfm := FS.find?_some hf
  have hne : p ≠ [] := hfm.2 ▸ inv.wf.path_ne_nil hfm.1
  have hpb := snoc_parent_base hne
  have hp2 : 2 ≤ p.length := by
    rcases inv.wf.parent hfm.1 with h | h | h
    · have := inv.wf.rootW; rw [← h, hfm.2] at this
      obtain ⟨d, hd, hdd⟩ := FS.isDir_iff.mp this; rw [hf] at hd; cases hd; rw [hfile] at hdd; cases hdd
    · have := inv.wf.rootO; rw [← h, hfm.2] at this
      obtain ⟨d, hd, hdd⟩ := FS.isDir_iff.mp this; rw [hf] at hd; cases hd; rw [hfile] at hdd; cases hdd
    · rw [← hfm.2]; exact h.1
  have hex : s.fs.exists p = true := FS.exists_iff.mpr ⟨f, hf⟩
  have hinv := inv.fs_change (inv.wf.del hp2 (inv.wf.file_leaf hf hfile)) (find_W_del hp2)
  have hk0 := flat_removeEntry inv hfm.1 (hfm.2 ▸ hp2)
  rw [hfm.2] at hk0
  rcases inv.parent_recs p with ⟨hw, hpw, w0, h1, hrec⟩ | ⟨hw, hrec⟩
  · apply step_simple_flat s _ inv hs hc (s.fs.del p) [⟨w0, .delete, false, 0, some (baseName p)⟩] (fun _ => parentOf p)
    · simp [kernelOp, hf, hk0, hrec, hfile]
    · intro r hr; simp at hr; subst hr; simp [simpleFlag, h1, hpw]
    · exact hinv
    · intro r hr; simp at hr; subst hr; simp [emit, NRec.toLEv]
    · simp [contract, hw, hex, emit, NRec.toLEv, NRec.src, hpb, dirMod, mkEv, evDeleted]
    · simp [contract]
  · apply step_simple_flat s _ inv hs hc (s.fs.del p) [] (fun _ => parentOf p)
    · simp [kernelOp, hf, hk0, hrec]
    · simp
    · exact hinv
    · simp
    · simp [contract, hw]
    · simp [contract]

end WD.Pipe

namespace WD.Pipe

theorem flat_rmdir (s : Sys) (p : P) (inv : InvFlat s.fs s.k s.lib) (hs : s.stopped = false) (hc : s.crashed = false)
    (hv : validOp s.fs (.rmdir p) = true) : StepFlat s (.rmdir p) := by
  have hv' : (2 ≤ p.length ∨ p = ["W"]) ∧ s.fs.isDir p = true ∧ (s.fs.children p).isEmpty = true := by
    have := hv; simp [validOp] at this; exact ⟨this.1.1, this.1.2, by simpa using this.2⟩
  obtain ⟨e, he, hd⟩ := FS.isDir_iff.mp hv'.2.1
  have hem := FS.find?_some he
  have hex : s.fs.exists p = true := FS.exists_iff.mpr ⟨e, he⟩
  by_cases hW : p = ["W"]
  · subst hW
    obtain ⟨r, w0, hr, hrd, hkw, hpfw, hwfp⟩ := inv.root
    rw [he] at hr; cases hr
    have h1 : s.k.wdOfIno e.ino = some w0 := by simp [Kern.wdOfIno, hkw]
    have h2 : lookupW s.lib.pathForWd w0 = some ["W"] := by simp [hpfw, lookupW_cons]
    have h3 : lookupP s.lib.wdForPath ["W"] = some w0 := by simp [hwfp, lookupP_cons]
    have hpar : s.fs.find? (parentOf ["W"]) = none := by
      rw [FS.find?_none]; intro x hx; exact fun h => inv.wf.path_ne_nil hx (by simpa [parentOf] using h)
    have hk : kernelOp s.fs s.k (.rmdir ["W"]) = (s.fs.del ["W"], s.k.dropWatch e.ino,
        [⟨w0, .deleteSelf, false, 0, none⟩, ⟨w0, .ignored, false, 0, none⟩]) := by
      simp [kernelOp, he, removeEntry, hd, hem.2, onSelf_some h1, hpar, Kern.onEntry, FS.del]
    have hl : libBatch (s.fs.del ["W"]) (s.k.dropWatch e.ino) s.lib [⟨w0, .deleteSelf, false, 0, none⟩, ⟨w0, .ignored, false, 0, none⟩] =
        some (s.k.dropWatch e.ino, s.lib.forget ["W"] w0,
          [⟨w0, .deleteSelf, false, 0, none, ["W"]⟩, ⟨w0, .ignored, false, 0, none, ["W"]⟩]) := by
      rw [libBatch_cons, libRecord_simple _ _ s.lib _ ["W"] (by simp [simpleFlag]) h2]
      simp only [libBatch_cons, libRecord_ignored _ _ s.lib w0 ["W"] false 0 h2 h3, libBatch_nil]
      simp [NRec.toLEv, NRec.src]
    have hgs : gsOf [(⟨w0, .deleteSelf, false, 0, none, ["W"]⟩ : LEv), ⟨w0, .ignored, false, 0, none, ["W"]⟩] =
        [.one ⟨w0, .deleteSelf, false, 0, none, ["W"]⟩] := by
      rw [gsOf_noTo]; · simp [List.filter_cons]
      · intro x hx; simp at hx; rcases hx with rfl | rfl <;> simp
    have hrec' : (s.lib.forget ["W"] w0).recursive = false := inv.notRec
    have hf : forgetAll (s.fs.del ["W"]) (s.k.dropWatch e.ino) (s.lib.forget ["W"] w0)
        (if (s.lib.forget ["W"] w0).recursive then
          movedOut (gsOf [(⟨w0, .deleteSelf, false, 0, none, ["W"]⟩ : LEv), ⟨w0, .ignored, false, 0, none, ["W"]⟩]) else []) =
        some (s.k.dropWatch e.ino, s.lib.forget ["W"] w0) := by
      rw [hrec']; simp [forgetAll_nil]
    have hop := Sys.op_eq s _ hs hc hk hl hf
    rw [hgs] at hop
    simp only [emitAll_cons, emitAll_nil, emit, if_true] at hop
    exact ⟨by rw [hop]; simp [contract, mkEv], by rw [hop]; simp [contract], by rw [hop]; exact hc, by rw [hop],
      fun h => by simp [contract] at h⟩
  · have hp2 : 2 ≤ p.length := by rcases hv'.1 with h | h; exact h; exact absurd h hW
    have hpb := snoc_parent_base (ne_nil_of_two_le hp2)
    have hinv := inv.fs_change (inv.wf.del hp2 (inv.wf.dir_leaf hv'.2.2)) (find_W_del hp2)
    have hk0 := flat_removeEntry inv hem.1 (hem.2 ▸ hp2)
    rw [hem.2] at hk0
    have hb : (p == ["W"]) = false := by simp [hW]
    rcases inv.parent_recs p with ⟨hw, hpw, w0, h1, hrec⟩ | ⟨hw, hrec⟩
    · apply step_simple_flat s _ inv hs hc (s.fs.del p) [⟨w0, .delete, true, 0, some (baseName p)⟩] (fun _ => parentOf p)
      · simp [kernelOp, he, hk0, hrec, hd]
      · intro r hr; simp at hr; subst hr; simp [simpleFlag, h1, hpw]
      · exact hinv
      · intro r hr; simp at hr; subst hr; simp [emit, NRec.toLEv]
      · simp [contract, hb, hw, hex, emit, NRec.toLEv, NRec.src, hpb, dirMod, mkEv, evDeleted]
      · simp [contract, hb]
    · apply step_simple_flat s _ inv hs hc (s.fs.del p) [] (fun _ => parentOf p)
      · simp [kernelOp, he, hk0, hrec]
      · simp
      · exact hinv
      · simp
      · simp [contract, hb, hw]
      · simp [contract, hb]

/-- the removals of a recursive delete under a non-recursive watch: only a direct child of the root is reported -/
theorem flat_removeAll {fs : FS} {k : Kern} {lib : Lib} (inv : InvFlat fs k lib) (es : List Ent) (hch : EChain fs es) :
    ∃ recs, removeAll fs k es = ((removeAll fs k es).1, k, recs) ∧ InvFlat (removeAll fs k es).1 k lib ∧
      (∀ r ∈ recs, r.flag = .delete ∧ lookupW lib.pathForWd r.wd = some ["W"] ∧ ∃ n, r.name = some n) ∧
      (∀ fsX full, recs.flatMap (fun r => (emit fsX false full (.one (r.toLEv ["W"]))).1) =
        es.flatMap (fun e => if parentOf e.path = ["W"] then evDeleted e.isDir e.path else [])) := by
  induction es generalizing fs with
  | nil => exact ⟨[], rfl, by simpa [removeAll_nil] using inv, by simp, by simp⟩
  | cons e rest ih =>
    obtain ⟨he, h2, hwf', hrest⟩ := hch
    have hk0 := flat_removeEntry (k := k) inv he h2
    have inv1 : InvFlat (fs.del e.path) k lib := inv.fs_change hwf' (find_W_del h2)
    obtain ⟨recs2, hr2, i2, f2, e2⟩ := ih inv1 hrest
    have hpb := snoc_parent_base (ne_nil_of_two_le h2)
    rw [removeAll_cons]
    simp only [hk0]
    rcases inv.parent_recs e.path with ⟨_, hpw, w0, h1, hrec⟩ | ⟨hw, hrec⟩
    · refine ⟨⟨w0, .delete, e.isDir, 0, some (baseName e.path)⟩ :: recs2, ?_, i2, ?_, ?_⟩
      · rw [hr2]; simp [hrec]
      · intro r hr
        rcases List.mem_cons.mp hr with rfl | hr
        · exact ⟨rfl, h1, _, rfl⟩
        · exact f2 r hr
      · intro fsX full
        simp only [List.flatMap_cons, e2 fsX full, hpw, if_true]
        simp [emit, NRec.toLEv, NRec.src, evDeleted, dirMod, mkEv, ← hpw, hpb]
    · have hnp : parentOf e.path ≠ ["W"] := by
        intro h
        obtain ⟨r, _, hr, hrd, _⟩ := inv.root
        rw [watchedDir_flat, h] at hw
        simp [FS.isDir, hr, hrd] at hw
      refine ⟨recs2, ?_, i2, f2, ?_⟩
      · rw [hr2]; simp [hrec]
      · intro fsX full
        simp only [List.flatMap_cons, e2 fsX full, hnp, if_false, List.nil_append]

theorem flat_rmtreeOrd (s : Sys) (p : P) (order : List P) (inv : InvFlat s.fs s.k s.lib) (hs : s.stopped = false)
    (hc : s.crashed = false) (hv : validOp s.fs (.rmtreeOrd p order) = true) : StepFlat s (.rmtreeOrd p order) := by
  have hv' := hv
  simp only [validOp, validRmtree, Bool.and_eq_true, decide_eq_true_eq, List.all_eq_true] at hv'
  obtain ⟨⟨⟨⟨⟨hp2, hdir⟩, hall⟩, hdesc⟩, hnd⟩, hpw⟩ := hv'
  obtain ⟨e, he, _⟩ := FS.isDir_iff.mp hdir
  have hem := FS.find?_some he
  have hpaths := filterMap_find_paths (fs := s.fs) order (fun q hq => (hall q hq).2)
  have hch : EChain s.fs (order.filterMap s.fs.find? ++ [e]) := by
    apply echain_of_order inv.wf p hp2 e hem.1 hem.2 _ s.fs inv.wf hem.1
    · intro a ha
      obtain ⟨h1, h2⟩ := mem_filterMap_find ha
      exact ⟨(hall _ h2).1, h1⟩
    · intro x hx hxp
      have : x ∈ s.fs.descendants p := by unfold FS.descendants; exact List.mem_filter.mpr ⟨hx, hxp⟩
      have hc' := hdesc x this
      simp only [List.contains_iff_mem] at hc'
      exact List.mem_filterMap.mpr ⟨x.path, hc', inv.wf.find_mem hx⟩
    · rw [hpaths]; exact hpw
    · rw [hpaths]; exact hnd
  obtain ⟨recs, hr, hinv, hfl, hev⟩ := flat_removeAll inv _ hch
  have hk : kernelOp s.fs s.k (.rmtreeOrd p order) =
      ((removeAll s.fs s.k (order.filterMap s.fs.find? ++ [e])).1, s.k, recs) := by
    simp only [kernelOp, he]; exact hr
  apply step_simple_flat s _ inv hs hc _ recs (fun _ => ["W"]) hk
  · intro r hr'; obtain ⟨h1, h2, _⟩ := hfl r hr'; simp [simpleFlag, h1, h2]
  · exact hinv
  · intro r hr'; obtain ⟨h1, _, _⟩ := hfl r hr'; simp [emit, NRec.toLEv, h1]
  · rw [hev]
    simp only [contract, contractRemovals, he, Option.toList_some]
    apply flatMap_congr'
    intro x hx
    have hxm : x ∈ s.fs.ents ∧ 2 ≤ x.path.length := by
      rcases List.mem_append.mp hx with h | h
      · obtain ⟨h1, h2⟩ := mem_filterMap_find h
        have := isUnder_length (hall _ h2).1
        exact ⟨h1, by omega⟩
      · simp at h; subst h; exact ⟨hem.1, hem.2 ▸ hp2⟩
    have hpd : s.fs.isDir (parentOf x.path) = true := by
      rcases inv.wf.parent hxm.1 with h | h | h
      · rw [h] at hxm; simp at hxm
      · rw [h] at hxm; simp at hxm
      · exact h.2
    by_cases hpw' : parentOf x.path = ["W"]
    · rw [hpw'] at hpd; simp [watchedDir_flat, hpd, hpw']
    · have hb : (parentOf x.path == ["W"]) = false := by simp [hpw']
      simp [watchedDir_flat, hb, hpw']
  · simp [contract]

theorem flat_rmtree (s : Sys) (p : P) (inv : InvFlat s.fs s.k s.lib) (hs : s.stopped = false)
    (hc : s.crashed = false) (hv : validOp s.fs (.rmtree p) = true) : StepFlat s (.rmtree p) := by
  have h := flat_rmtreeOrd s p (canonOrder s.fs p) inv hs hc hv
  have hop : s.op (.rmtree p) = s.op (.rmtreeOrd p (canonOrder s.fs p)) := by
    unfold Sys.op
    have : kernelOp s.fs s.k (.rmtree p) = kernelOp s.fs s.k (.rmtreeOrd p (canonOrder s.fs p)) := rfl
    rw [this]
  have hco : contract s.fs false s.full (.rmtree p) = contract s.fs false s.full (.rmtreeOrd p (canonOrder s.fs p)) := rfl
  exact ⟨by rw [hop, hco]; exact h.events, by rw [hop, hco]; exact h.stop, by rw [hop]; exact h.ncrash,
    by rw [hop]; exact h.full, by rw [hop, hco]; exact h.inv⟩

end WD.Pipe

namespace WD.Pipe
variable {fs : FS} {k : Kern} {lib : Lib} {p q : P} {e : Ent}

theorem flat_rename_kernel (inv : InvFlat fs k lib) (ok : RenameOK fs p q e) :
    kernelOp fs k (.rename p q) = (fs.renamed p q, { k with nextCookie := k.nextCookie + 1 },
      fromRecs fs k p e.isDir ++ toRecs fs k q e.isDir) := by
  have hmap : ∀ l : List Ent, l.map (fun x => if x.path == p then { x with path := q }
      else if isUnder p x.path then { x with path := q ++ x.path.drop p.length } else x) = l.map (rwEnt p q) := by
    intro l; apply List.map_congr_left; intro x _; exact rwEnt_eq_model p q x
  cases hq : fs.find? q with
  | none =>
    simp only [kernelOp, ok.he, hq, hmap, fromRecs, toRecs, List.append_nil]
    simp [FS.renamed, FS.del_missing hq]
  | some old =>
    have hom := FS.find?_some hq
    have hnW : old.path ≠ ["W"] := by rw [hom.2]; intro h; rw [h] at ok; have := ok.hq2; simp at this
    have hun := inv.unwatched hom.1 hnW
    have hk0 : (if old.isDir then k.dropWatch old.ino else k) = k := by cases old.isDir <;> simp [dropWatch_unwatched hun]
    have hself : (if old.isDir then k.onSelf old.ino .attrib true ++ k.onSelf old.ino .deleteSelf false ++
        k.onSelf old.ino .ignored false else []) = [] := by simp [onSelf_none hun]
    simp only [kernelOp, ok.he, hq, hk0, hself, hmap, fromRecs, toRecs, List.append_nil]
    simp [FS.renamed, FS.del]

theorem contract_rename_flat (fs : FS) (full : Bool) (p q : P) (e : Ent) (ok : RenameOK fs p q e) :
    contract fs false full (.rename p q) =
      if watchedDir fs false (parentOf p) && watchedDir fs false (parentOf q) then
        ([mkEv (movedCls e.isDir) p q, dirMod p, dirMod q], false)
      else if watchedDir fs false (parentOf p) then
        (if full then [mkEv (movedCls e.isDir) p [], dirMod p] else evDeleted e.isDir p, false)
      else if watchedDir fs false (parentOf q) then
        ((if full then [mkEv (movedCls e.isDir) [] q] else [mkEv (createdCls e.isDir) q]) ++ [dirMod q], false)
      else ([], false) := by
  have hq : q ≠ ["W"] := by intro h; rw [h] at ok; have := ok.hq2; simp at this
  have hb : (q == ["W"]) = false := by simp [hq]
  have htail : renameTail fs false q = [] := by
    simp only [renameTail]
    cases fs.find? q with
    | none => rfl
    | some old => simp [watchedDir_flat, hb]
  simp only [contract, ok.he, htail, Bool.and_false, Bool.false_eq_true, if_false, List.append_nil]

theorem find_W_renamed (hwf : fs.WF) (ok : RenameOK fs p q e) : (fs.renamed p q).find? ["W"] = fs.find? ["W"] := by
  obtain ⟨r, hr, _⟩ := FS.isDir_iff.mp hwf.rootW
  have hrm := FS.find?_some hr
  have hp : r.path ≠ p := by rw [hrm.2]; intro h; rw [← h] at ok; have := ok.hp2; simp at this
  have hq : r.path ≠ q := by rw [hrm.2]; intro h; rw [← h] at ok; have := ok.hq2; simp at this
  have hu : isUnder p r.path = false := by
    cases h : isUnder p r.path with
    | false => rfl
    | true =>
      have hl := isUnder_length h
      rw [hrm.2] at hl
      have h1 : (["W"] : P).length = 1 := rfl
      have := ok.hp2
      omega
  have hmem : r ∈ (fs.renamed p q).ents := FS.mem_renamed.mpr ⟨r, hrm.1, hq, (rwEnt_fixed hp hu).symm⟩
  have := (ok.wf hwf).find_mem hmem
  rw [hrm.2] at this; rw [this, hr]

theorem flat_rename (s : Sys) (p q : P) (inv : InvFlat s.fs s.k s.lib) (hs : s.stopped = false)
    (hc : s.crashed = false) (hv : validOp s.fs (.rename p q) = true) : StepFlat s (.rename p q) := by
  obtain ⟨e, ok⟩ := renameOK_of_valid hv
  have hk := flat_rename_kernel inv ok
  have hpb := snoc_parent_base (ne_nil_of_two_le ok.hp2)
  have hqb := snoc_parent_base (ne_nil_of_two_le ok.hq2)
  have hcon := contract_rename_flat s.fs s.full p q e ok
  have hnr : s.lib.recursive = false := inv.notRec
  obtain ⟨r0, w00, hr0, hrd0, hkw0, hpfw0, hwfp0⟩ := inv.root
  have hpW : p ≠ ["W"] := by intro h; rw [h] at ok; have := ok.hp2; simp at this
  let kB : Kern := { s.k with nextCookie := s.k.nextCookie + 1 }
  have invR : InvFlat (s.fs.renamed p q) kB s.lib :=
    { wf := ok.wf inv.wf, notRec := inv.notRec,
      root := by rw [find_W_renamed inv.wf ok]; exact ⟨r0, w00, hr0, hrd0, hkw0, hpfw0, hwfp0⟩,
      cookies := fun x hx => by have := inv.cookies x hx; simp [kB]; omega, srcs := inv.srcs }
  have invRm : InvFlat (s.fs.renamed p q) kB (s.lib.remember s.k.nextCookie p) :=
    { wf := invR.wf, notRec := inv.notRec, root := invR.root,
      cookies := by
        intro x hx; simp only [Lib.remember, List.mem_cons] at hx
        rcases hx with rfl | hx
        · simp [kB]
        · exact invR.cookies x hx
      srcs := by
        intro x hx; simp only [Lib.remember, List.mem_cons] at hx
        rcases hx with rfl | hx
        · exact hpW
        · exact inv.srcs x hx }
  rcases inv.parent_recs p with ⟨hwp, hpp, wdp, hp1, hrp⟩ | ⟨hwp, hrp⟩ <;>
  rcases inv.parent_recs q with ⟨hwq, hqp, wdq, hq1, hrq⟩ | ⟨hwq, hrq⟩
  · -- both direct children of the root: one paired move
    let levF : LEv := ⟨wdp, .movedFrom, e.isDir, s.k.nextCookie, some (baseName p), p⟩
    let levT : LEv := ⟨wdq, .movedTo, e.isDir, s.k.nextCookie, some (baseName q), q⟩
    have hqW : (["W", baseName q] : P) = q := by rw [← hqb, hqp]; rfl
    have hl : libBatch (s.fs.renamed p q) kB s.lib
        [⟨wdp, .movedFrom, e.isDir, s.k.nextCookie, some (baseName p)⟩, ⟨wdq, .movedTo, e.isDir, s.k.nextCookie, some (baseName q)⟩] =
        some (kB, s.lib.remember s.k.nextCookie p, [levF, levT]) := by
      rw [libBatch_cons, libRecord_from _ _ _ _ _ _ _ _ hp1, ← hpp, hpb]
      simp only
      rw [libBatch_cons, libRecord_to_flat _ _ (s.lib.remember s.k.nextCookie p) _ _ _ _ w00 hq1 inv.notRec hwfp0 invRm.srcs, hqW]
      simp [libBatch_nil, levF, levT]
    have hk' : kernelOp s.fs s.k (.rename p q) = (s.fs.renamed p q, kB,
        [⟨wdp, .movedFrom, e.isDir, s.k.nextCookie, some (baseName p)⟩, ⟨wdq, .movedTo, e.isDir, s.k.nextCookie, some (baseName q)⟩]) := by
      rw [hk]; simp [fromRecs, toRecs, hrp, hrq, kB]
    have hgs : gsOf [levF, levT] = [.two levF levT] := by simp [gsOf, group, pairIn, Grouped.keep, levF, levT]
    have hf : forgetAll (s.fs.renamed p q) kB (s.lib.remember s.k.nextCookie p)
        (if (s.lib.remember s.k.nextCookie p).recursive then movedOut (gsOf [levF, levT]) else []) =
        some (kB, s.lib.remember s.k.nextCookie p) := by
      have : (s.lib.remember s.k.nextCookie p).recursive = false := inv.notRec
      rw [this]; simp [forgetAll_nil]
    have hop := Sys.op_eq s _ hs hc hk' hl hf
    rw [hgs] at hop
    have hrr : (s.lib.remember s.k.nextCookie p).recursive = false := inv.notRec
    simp only [emitAll_cons, emitAll_nil, emit, Bool.false_eq_true, if_false, List.append_nil, hrr, Bool.and_false, levF, levT] at hop
    refine ⟨by rw [hop, hcon]; simp [hwp, hwq, dirMod, mkEv, movedCls], by rw [hop, hcon]; simp [hwp, hwq],
      by rw [hop]; exact hc, by rw [hop], fun _ => by rw [hop]; exact invRm⟩
  · -- leaves the root's children
    let levF : LEv := ⟨wdp, .movedFrom, e.isDir, s.k.nextCookie, some (baseName p), p⟩
    have hl : libBatch (s.fs.renamed p q) kB s.lib [⟨wdp, .movedFrom, e.isDir, s.k.nextCookie, some (baseName p)⟩] =
        some (kB, s.lib.remember s.k.nextCookie p, [levF]) := by
      rw [libBatch_cons, libRecord_from _ _ _ _ _ _ _ _ hp1, ← hpp, hpb]
      simp [libBatch_nil, levF]
    have hk' : kernelOp s.fs s.k (.rename p q) = (s.fs.renamed p q, kB,
        [⟨wdp, .movedFrom, e.isDir, s.k.nextCookie, some (baseName p)⟩]) := by
      rw [hk]; simp [fromRecs, toRecs, hrp, hrq, kB]
    have hgs : gsOf [levF] = [.one levF] := by simp [gsOf, group, Grouped.keep, levF]
    have hrr : (s.lib.remember s.k.nextCookie p).recursive = false := inv.notRec
    have hf : forgetAll (s.fs.renamed p q) kB (s.lib.remember s.k.nextCookie p)
        (if (s.lib.remember s.k.nextCookie p).recursive then movedOut (gsOf [levF]) else []) =
        some (kB, s.lib.remember s.k.nextCookie p) := by
      rw [hrr]; simp [forgetAll_nil]
    have hop := Sys.op_eq s _ hs hc hk' hl hf
    rw [hgs] at hop
    simp only [emitAll_cons, emitAll_nil, emit, Bool.false_eq_true, if_false, List.append_nil, hrr, levF] at hop
    refine ⟨?_, ?_, by rw [hop]; exact hc, by rw [hop], fun _ => by rw [hop]; exact invRm⟩
    · rw [hop, hcon]; cases s.full <;> cases e.isDir <;> simp [hwp, hwq, dirMod, mkEv, movedCls, evDeleted]
    · rw [hop, hcon]; cases s.full <;> simp [hwp, hwq]
  · -- arrives among the root's children
    let levT : LEv := ⟨wdq, .movedTo, e.isDir, s.k.nextCookie, some (baseName q), q⟩
    have hqW : (["W", baseName q] : P) = q := by rw [← hqb, hqp]; rfl
    have hl : libBatch (s.fs.renamed p q) kB s.lib [⟨wdq, .movedTo, e.isDir, s.k.nextCookie, some (baseName q)⟩] =
        some (kB, s.lib, [levT]) := by
      rw [libBatch_cons, libRecord_to_flat _ _ _ _ _ _ _ w00 hq1 inv.notRec hwfp0 inv.srcs, hqW]
      simp [libBatch_nil, levT]
    have hk' : kernelOp s.fs s.k (.rename p q) = (s.fs.renamed p q, kB,
        [⟨wdq, .movedTo, e.isDir, s.k.nextCookie, some (baseName q)⟩]) := by
      rw [hk]; simp [fromRecs, toRecs, hrp, hrq, kB]
    have hgs : gsOf [levT] = [.one levT] := by simp [gsOf, group, pairIn, Grouped.keep, levT]
    have hf : forgetAll (s.fs.renamed p q) kB s.lib (if s.lib.recursive then movedOut (gsOf [levT]) else []) = some (kB, s.lib) := by
      rw [hnr]; simp [forgetAll_nil]
    have hop := Sys.op_eq s _ hs hc hk' hl hf
    rw [hgs] at hop
    simp only [emitAll_cons, emitAll_nil, emit, Bool.false_eq_true, if_false, List.append_nil, hnr, Bool.and_false, levT] at hop
    refine ⟨?_, ?_, by rw [hop]; exact hc, by rw [hop], fun _ => by rw [hop]; exact invR⟩
    · rw [hop, hcon]; cases s.full <;> cases e.isDir <;> simp [hwp, hwq, dirMod, mkEv, movedCls, createdCls]
    · rw [hop, hcon]; cases s.full <;> simp [hwp, hwq]
  · have hk' : kernelOp s.fs s.k (.rename p q) = (s.fs.renamed p q, kB, []) := by
      rw [hk]; simp [fromRecs, toRecs, hrp, hrq, kB]
    have hf : forgetAll (s.fs.renamed p q) kB s.lib (if s.lib.recursive then movedOut (gsOf []) else []) = some (kB, s.lib) := by
      rw [hnr]; simp [forgetAll_nil]
    have hop := Sys.op_eq s _ hs hc hk' (libBatch_nil _ _ _) hf
    simp only [gsOf, group, List.foldl_nil, List.filter_nil, emitAll_nil] at hop
    exact ⟨by rw [hop, hcon]; simp [hwp, hwq], by rw [hop, hcon]; simp [hwp, hwq], by rw [hop]; exact hc, by rw [hop],
      fun _ => by rw [hop]; exact invR⟩

/-- one drained operation under a non-recursive watch -/
theorem step_flat (s : Sys) (op : Op) (inv : InvFlat s.fs s.k s.lib) (hs : s.stopped = false)
    (hc : s.crashed = false) (hv : validOp s.fs op = true) : StepFlat s op := by
  cases op with
  | create p => exact flat_create s p inv hs hc hv
  | write p => exact flat_write s p inv hs hc hv
  | chmod p => exact flat_chmod s p inv hs hc hv
  | unlink p => exact flat_unlink s p inv hs hc hv
  | mkdir p => exact flat_mkdir s p inv hs hc hv
  | rmdir p => exact flat_rmdir s p inv hs hc hv
  | rmtree p => exact flat_rmtree s p inv hs hc hv
  | rename p q => exact flat_rename s p q inv hs hc hv
  | rmtreeOrd p order => exact flat_rmtreeOrd s p order inv hs hc hv

end WD.Pipe

namespace WD.Pipe

/-- REFINEMENT (non-recursive watch): a history of valid operations delivers exactly the contract's events (which
    only ever concern the root and its direct children), never crashes the reader, keeps the invariant -/
theorem run_flat (s : Sys) (ops : List Op) (inv : InvFlat s.fs s.k s.lib) (hs : s.stopped = false) (hc : s.crashed = false)
    (hv : allValid s ops = true) :
    (s.run ops).2 = contractRun s.fs false s.full ops ∧ (s.run ops).1.crashed = false ∧
    ((s.run ops).1.stopped = false → InvFlat (s.run ops).1.fs (s.run ops).1.k (s.run ops).1.lib) := by
  induction ops generalizing s with
  | nil => exact ⟨rfl, hc, fun _ => inv⟩
  | cons op rest ih =>
    simp only [allValid, Bool.and_eq_true] at hv
    have st := step_flat s op inv hs hc hv.1
    simp only [Sys.run, contractRun]
    cases hst : (contract s.fs false s.full op).2 with
    | true =>
      have hstop : (s.op op).1.stopped = true := by rw [st.stop, hst]
      obtain ⟨r1, r2, r3⟩ := run_stopped (s.op op).1 rest hstop
      simp only [if_true]
      exact ⟨by rw [st.events, r1], by rw [r2, st.ncrash], fun h => by rw [r3] at h; cases h⟩
    | false =>
      have hstop : (s.op op).1.stopped = false := by rw [st.stop, hst]
      obtain ⟨i1, i2, i3⟩ := ih (s.op op).1 (st.inv hst) hstop st.ncrash hv.2
      simp only [Bool.false_eq_true, if_false]
      exact ⟨by rw [st.events, i1, st.full, Sys.op_fs], i2, i3⟩

theorem start_flat (fs0 : FS) (hwf : fs0.WF) (full : Bool) :
    InvFlat (Sys.start fs0 false full).fs (Sys.start fs0 false full).k (Sys.start fs0 false full).lib ∧
    (Sys.start fs0 false full).stopped = false ∧ (Sys.start fs0 false full).crashed = false ∧
    (Sys.start fs0 false full).fs = fs0 ∧ (Sys.start fs0 false full).full = full := by
  obtain ⟨r, hr, hrd⟩ := FS.isDir_iff.mp hwf.rootW
  have hrm := FS.find?_some hr
  have haw := addWatch_new (fs := fs0) (k := ⟨[], 1, 1⟩) (lib := ⟨[], [], [], false⟩) (e := r) (by rw [hrm.2]; exact hr)
    (by simp [Kern.wdOfIno])
  rw [hrm.2] at haw
  have hstart : Sys.start fs0 false full =
      { fs := fs0, k := (⟨[], 1, 1⟩ : Kern).withWatch r.ino, lib := (⟨[], [], [], false⟩ : Lib).withWatch ["W"] 1, full := full } := by
    simp only [Sys.start, libInit, Bool.false_eq_true, if_false, haw]
  rw [hstart]
  refine ⟨?_, rfl, rfl, rfl, rfl⟩
  exact
    { wf := hwf, notRec := rfl,
      root := ⟨r, 1, hr, hrd, by simp [Kern.withWatch], by simp [Lib.withWatch, setW, lookupW_nil],
        by simp [Lib.withWatch, setP, lookupP_nil]⟩,
      cookies := by simp [Lib.withWatch], srcs := by simp [Lib.withWatch] }

theorem stopped_iff_flat (s : Sys) (ops : List Op) (inv : InvFlat s.fs s.k s.lib) (hs : s.stopped = false) (hc : s.crashed = false)
    (hv : allValid s ops = true) : (s.run ops).1.stopped = true ↔ Op.rmdir ["W"] ∈ ops := by
  induction ops generalizing s with
  | nil => simp [Sys.run, hs]
  | cons op rest ih =>
    simp only [allValid, Bool.and_eq_true] at hv
    have st := step_flat s op inv hs hc hv.1
    simp only [Sys.run, List.mem_cons]
    cases hst : (contract s.fs false s.full op).2 with
    | true =>
      have hstop : (s.op op).1.stopped = true := by rw [st.stop, hst]
      have := (contract_stop_iff _ _ _ _).mp hst
      rw [(run_stopped (s.op op).1 rest hstop).2.2]
      simp [this]
    | false =>
      have hstop : (s.op op).1.stopped = false := by rw [st.stop, hst]
      have hne : op ≠ .rmdir ["W"] := by
        intro h; have := (contract_stop_iff s.fs false s.full op).mpr h; rw [hst] at this; cases this
      rw [ih (s.op op).1 (st.inv hst) hstop st.ncrash hv.2]
      constructor
      · exact Or.inr
      · rintro (h | h)
        · exact absurd h.symm hne
        · exact h

end WD.Pipe
