/- a burst of file creations / writes / attribute changes / file removals, read in ONE batch after the last of them,
   delivers exactly what the same operations deliver when each is drained before the next -/
import WD.Model.PipelineBurst
import WD.Proofs.Pipeline.Departed
import WD.Proofs.Pipeline.Run
set_option linter.unusedSimpArgs false
namespace WD.Pipe

/-- the canonical path of a record's watch -/
def pth (lib : Lib) (r : NRec) : P := (lookupW lib.pathForWd r.wd).getD []

theorem simple_of_valid (s : Sys) (op : Op) (inv : InvRec s.fs s.k s.lib) (hv : validOp s.fs op = true)
    (hk : simpleKind op = true) : ∃ fs1 recs path, SimpleOp s op fs1 recs path := by
  cases op with
  | create p => exact simple_create s p inv hv
  | write p => exact simple_write s p inv hv
  | chmod p => exact simple_chmod s p inv hv
  | unlink p => exact simple_unlink s p inv hv
  | _ => simp [simpleKind] at hk

/-- one drained simple operation: only the file system changes -/
theorem op_simple (s : Sys) (op : Op) (inv : InvRec s.fs s.k s.lib) (hs : s.stopped = false) (hc : s.crashed = false)
    {fs1 : FS} {recs : List NRec} {path : NRec → P} (h : SimpleOp s op fs1 recs path) :
    s.op op = ({ s with fs := fs1 }, recs.flatMap (fun r => (emit fs1 true s.full (.one (r.toLEv (path r)))).1)) := by
  obtain ⟨hk, hr, hwf, hdirs, hnostop, hev, hst⟩ := h
  have hl : libBatch fs1 s.k s.lib recs = some (s.k, s.lib, recs.map (fun r => r.toLEv (path r))) :=
    libBatch_simple fs1 s.k s.lib recs path (by rw [inv.isRec]; exact hr)
  have hflags : ∀ e ∈ recs.map (fun r => r.toLEv (path r)), e.flag ≠ .movedTo ∧ e.flag ≠ .ignored := by
    intro e he
    obtain ⟨r, hr1, rfl⟩ := List.mem_map.mp he
    have := (hr r hr1).1
    simp only [NRec.toLEv]
    constructor <;> intro hf <;> simp [simpleFlag, hf] at this
  have hgs := gsOf_simple _ hflags
  have hmo : movedOut (gsOf (recs.map (fun r => r.toLEv (path r)))) = [] := by
    apply movedOut_nil_of
    intro g hg
    rw [hgs] at hg
    obtain ⟨e, he, rfl⟩ := List.mem_map.mp hg
    obtain ⟨r, hr1, rfl⟩ := List.mem_map.mp he
    simp only [NRec.toLEv]
    intro hh
    have := (hr r hr1).1
    simp [simpleFlag, hh.1] at this
  have hf : forgetAll fs1 s.k s.lib (if s.lib.recursive then movedOut (gsOf (recs.map (fun r => r.toLEv (path r)))) else []) = some (s.k, s.lib) := by
    rw [hmo]; simp [forgetAll_nil]
  have hop := Sys.op_eq s op hs hc hk hl hf
  have hem : emitAll fs1 s.lib.recursive s.full (gsOf (recs.map (fun r => r.toLEv (path r)))) =
      (recs.flatMap (fun r => (emit fs1 true s.full (.one (r.toLEv (path r)))).1), false) := by
    rw [hgs, inv.isRec, emitAll_nostop]
    · simp [List.flatMap_map]
    · intro g hg
      obtain ⟨e, he, rfl⟩ := List.mem_map.mp hg
      obtain ⟨r, hr1, rfl⟩ := List.mem_map.mp he
      exact hnostop r hr1
  rw [hem] at hop
  rw [hop, hs]

/-- what the emitter makes of a record that does not touch the maps does not depend on the file system it looks at -/
theorem emit_simple_fs (fs fs' : FS) (full : Bool) (e : LEv) (h : simpleFlag true e.flag e.isDir = true) :
    emit fs true full (.one e) = emit fs' true full (.one e) := by
  cases hf : e.flag <;> simp [simpleFlag, hf] at h <;> simp [emit, hf]

/-- every operation of the burst is valid when it is issued, and of a simple kind -/
def allSimple (s : Sys) : List Op → Bool
  | [] => true
  | op :: rest => validOp s.fs op && simpleKind op && allSimple (s.op op).1 rest

/-- the kernel side of a burst of simple operations, against the drained run: same final file system, the kernel's
    watches untouched, every queued record harmless to the maps, and the emitter makes of the queued records exactly
    what the drained run delivered, whatever file system it looks at -/
theorem kernelOps_simple (ops : List Op) : ∀ (s : Sys), InvRec s.fs s.k s.lib → s.stopped = false → s.crashed = false →
    allSimple s ops = true →
    ∃ fsN recs,
      kernelOps s.fs s.k ops = (fsN, s.k, recs) ∧
      (s.run ops).1 = { s with fs := fsN } ∧
      (∀ r ∈ recs, simpleFlag true r.flag r.isDir = true ∧ lookupW s.lib.pathForWd r.wd = some (pth s.lib r)) ∧
      (∀ fs', recs.flatMap (fun r => (emit fs' true s.full (.one (r.toLEv (pth s.lib r)))).1) = (s.run ops).2.flatten) ∧
      (∀ fs', ∀ r ∈ recs, (emit fs' true s.full (.one (r.toLEv (pth s.lib r)))).2 = false) := by
  induction ops with
  | nil =>
    intro s _ _ _ _
    exact ⟨s.fs, [], rfl, rfl, by simp, by simp [Sys.run], by simp⟩
  | cons op rest ih =>
    intro s inv hs hc hv
    simp only [allSimple, Bool.and_eq_true] at hv
    obtain ⟨⟨hvalid, hkind⟩, hrest⟩ := hv
    obtain ⟨fs1, r1, path, hS⟩ := simple_of_valid s op inv hvalid hkind
    have hop := op_simple s op inv hs hc hS
    have hpath : ∀ r ∈ r1, path r = pth s.lib r := by
      intro r hr; simp [pth, (hS.hr r hr).2]
    -- the state after the first operation
    have inv1 : InvRec ({ s with fs := fs1 } : Sys).fs ({ s with fs := fs1 } : Sys).k ({ s with fs := fs1 } : Sys).lib :=
      inv.fs_change hS.hwf hS.hdirs
    have hrest' : allSimple ({ s with fs := fs1 } : Sys) rest = true := by rw [hop] at hrest; exact hrest
    obtain ⟨fsN, r2, hk2, hrun2, hr2, hev2, hns2⟩ := ih ({ s with fs := fs1 } : Sys) inv1 hs hc hrest'
    refine ⟨fsN, r1 ++ r2, ?_, ?_, ?_, ?_, ?_⟩
    · simp only [kernelOps, hS.hk]
      have : kernelOps fs1 s.k rest = (fsN, s.k, r2) := hk2
      rw [this]
    · simp only [Sys.run, hop]
      exact hrun2
    · intro r hr
      rcases List.mem_append.1 hr with h | h
      · have := hS.hr r h; rw [hpath r h] at this; exact this
      · exact hr2 r h
    · intro fs'
      simp only [Sys.run, hop, List.flatMap_append, List.flatten_cons]
      congr 1
      · have : ∀ l : List NRec, (∀ r ∈ l, r ∈ r1) →
            l.flatMap (fun r => (emit fs' true s.full (.one (r.toLEv (pth s.lib r)))).1) =
            l.flatMap (fun r => (emit fs1 true s.full (.one (r.toLEv (path r)))).1) := by
          intro l
          induction l with
          | nil => intro _; rfl
          | cons r l ihl =>
            intro hl
            have hr := hl r (List.mem_cons_self ..)
            simp only [List.flatMap_cons]
            rw [ihl (fun x hx => hl x (List.mem_cons_of_mem _ hx)), ← hpath r hr,
              emit_simple_fs fs' fs1 s.full _ (by simpa [NRec.toLEv] using (hS.hr r hr).1)]
        exact this r1 (fun _ h => h)
      · exact hev2 fs'
    · intro fs' r hr
      rcases List.mem_append.1 hr with h | h
      · rw [← hpath r h, emit_simple_fs fs' fs1 s.full _ (by simpa [NRec.toLEv] using (hS.hr r h).1)]
        exact hS.hnostop r h
      · exact hns2 fs' r h

/-- **back-to-back regime, simple operations**: a burst of file creations, writes, attribute changes and file removals
    that the reader sees as ONE batch after the last of them leaves the observer in the same state and delivers the same
    events, in the same order, as the same operations drained one by one -/
theorem burst_simple (s : Sys) (ops : List Op) (inv : InvRec s.fs s.k s.lib) (hs : s.stopped = false)
    (hc : s.crashed = false) (hv : allSimple s ops = true) :
    s.burst ops = ((s.run ops).1, (s.run ops).2.flatten) := by
  obtain ⟨fsN, recs, hk, hrun, hr, hev, hns⟩ := kernelOps_simple ops s inv hs hc hv
  have hl : libBatch fsN s.k s.lib recs = some (s.k, s.lib, recs.map (fun r => r.toLEv (pth s.lib r))) :=
    libBatch_simple fsN s.k s.lib recs (pth s.lib) (by rw [inv.isRec]; exact hr)
  have hflags : ∀ e ∈ recs.map (fun r => r.toLEv (pth s.lib r)), e.flag ≠ .movedTo ∧ e.flag ≠ .ignored := by
    intro e he
    obtain ⟨r, hr1, rfl⟩ := List.mem_map.mp he
    have := (hr r hr1).1
    simp only [NRec.toLEv]
    constructor <;> intro hf <;> simp [simpleFlag, hf] at this
  have hgs := gsOf_simple _ hflags
  have hmo : movedOut (gsOf (recs.map (fun r => r.toLEv (pth s.lib r)))) = [] := by
    apply movedOut_nil_of
    intro g hg
    rw [hgs] at hg
    obtain ⟨e, he, rfl⟩ := List.mem_map.mp hg
    obtain ⟨r, hr1, rfl⟩ := List.mem_map.mp he
    simp only [NRec.toLEv]
    intro hh
    have := (hr r hr1).1
    simp [simpleFlag, hh.1] at this
  have hem : emitAll fsN s.lib.recursive s.full (gsOf (recs.map (fun r => r.toLEv (pth s.lib r)))) =
      ((s.run ops).2.flatten, false) := by
    rw [hgs, inv.isRec, emitAll_nostop]
    · rw [← hev fsN]; simp [List.flatMap_map]
    · intro g hg
      obtain ⟨e, he, rfl⟩ := List.mem_map.mp hg
      obtain ⟨r, hr1, rfl⟩ := List.mem_map.mp he
      exact hns fsN r hr1
  unfold Sys.burst
  simp only [hk, hs, hc, Bool.or_self, Bool.false_eq_true, if_false, hl, hem, departed_nil _ hmo, forgetAll_nil, hrun]
  simp [forgetAll_nil, hs]

end WD.Pipe
