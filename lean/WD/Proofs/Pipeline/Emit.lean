/- grouping, emission and the shape of one drained operation -/
import WD.Proofs.Pipeline.Inv
set_option linter.unusedSimpArgs false
namespace WD.Pipe


theorem foldl_noTo (step : List Grouped → LEv → List Grouped)
    (hstep : ∀ acc e, e.flag ≠ .movedTo → step acc e = acc ++ [.one e])
    (acc : List Grouped) (levs : List LEv) (h : ∀ e ∈ levs, e.flag ≠ .movedTo) :
    levs.foldl step acc = acc ++ levs.map .one := by
  induction levs generalizing acc with
  | nil => simp
  | cons e rest ih =>
    simp only [List.foldl_cons, hstep acc e (h e (List.mem_cons_self ..))]
    rw [ih _ (fun x hx => h x (List.mem_cons_of_mem _ hx))]
    simp

/-- a batch without MOVED_TO records is passed on record by record -/
theorem group_noTo (levs : List LEv) (h : ∀ e ∈ levs, e.flag ≠ .movedTo) : group levs = levs.map .one := by
  unfold group
  rw [foldl_noTo _ _ [] levs h]
  · simp
  · intro acc e he; simp [he]

theorem foldl_nostop (step : List PEv × Bool → Grouped → List PEv × Bool) (out : Grouped → List PEv)
    (hstep : ∀ acc g, step (acc, false) g = (acc ++ out g, false))
    (acc : List PEv) (gs : List Grouped) :
    gs.foldl step (acc, false) = (acc ++ gs.flatMap out, false) := by
  induction gs generalizing acc with
  | nil => simp
  | cons g rest ih =>
    simp only [List.foldl_cons, hstep, ih, List.flatMap_cons, List.append_assoc]

theorem emitAll_fold (fs : FS) (r f : Bool) (l : List Grouped) (acc : List PEv) :
    l.foldl (emitStep fs r f) (acc, false) = (acc ++ (emitAll fs r f l).1, (emitAll fs r f l).2) := by
  induction l generalizing acc with
  | nil => simp [emitAll]
  | cons g rest ih =>
    unfold emitAll
    simp only [List.foldl_cons, emitStep, Bool.false_eq_true, if_false, List.nil_append]
    cases hst : (emit fs r f g).2 with
    | false =>
      rw [ih, ih (acc := (emit fs r f g).1)]
      simp [List.append_assoc]
    | true =>
      have stuck : ∀ (l : List Grouped) (a : List PEv), l.foldl (emitStep fs r f) (a, true) = (a, true) := by
        intro l; induction l with
        | nil => intro a; rfl
        | cons g' l' ih' => intro a; simp only [List.foldl_cons, emitStep, if_true]; exact ih' a
      rw [stuck, stuck]

theorem emitAll_nil (fs : FS) (r f : Bool) : emitAll fs r f [] = ([], false) := rfl

theorem emitAll_cons (fs : FS) (r f : Bool) (g : Grouped) (gs : List Grouped) :
    emitAll fs r f (g :: gs) =
      if (emit fs r f g).2 then ((emit fs r f g).1, true)
      else ((emit fs r f g).1 ++ (emitAll fs r f gs).1, (emitAll fs r f gs).2) := by
  conv => lhs; unfold emitAll
  simp only [List.foldl_cons, emitStep, Bool.false_eq_true, if_false, List.nil_append]
  cases hst : (emit fs r f g).2 with
  | false => simp [emitAll_fold]
  | true =>
    have stuck : ∀ (l : List Grouped) (a : List PEv), l.foldl (emitStep fs r f) (a, true) = (a, true) := by
      intro l; induction l with
      | nil => intro a; rfl
      | cons g' l' ih' => intro a; simp only [List.foldl_cons, emitStep, if_true]; exact ih' a
    simp [stuck]

theorem emitAll_append (fs : FS) (r f : Bool) (g1 g2 : List Grouped) (h : (emitAll fs r f g1).2 = false) :
    emitAll fs r f (g1 ++ g2) = ((emitAll fs r f g1).1 ++ (emitAll fs r f g2).1, (emitAll fs r f g2).2) := by
  conv => lhs; unfold emitAll
  rw [List.foldl_append]
  have h1 := emitAll_fold fs r f g1 []
  simp only [List.nil_append] at h1
  rw [h1, h, emitAll_fold]

/-- as long as nothing stops the emitter, the events of a batch are the events of its items in order -/
theorem emitAll_nostop (fs : FS) (r f : Bool) (gs : List Grouped) (h : ∀ g ∈ gs, (emit fs r f g).2 = false) :
    emitAll fs r f gs = (gs.flatMap (fun g => (emit fs r f g).1), false) := by
  induction gs with
  | nil => rfl
  | cons g rest ih =>
    rw [emitAll_cons, h g (List.mem_cons_self ..), ih (fun x hx => h x (List.mem_cons_of_mem _ hx))]
    simp [List.flatMap_cons]

theorem gsOf_simple (levs : List LEv) (h : ∀ e ∈ levs, e.flag ≠ .movedTo ∧ e.flag ≠ .ignored) :
    gsOf levs = levs.map .one := by
  unfold gsOf
  rw [group_noTo levs (fun e he => (h e he).1)]
  rw [List.filter_eq_self]
  intro g hg
  obtain ⟨e, he, rfl⟩ := List.mem_map.mp hg
  simp [Grouped.keep, (h e he).2]

theorem forgetAll_nil (fs : FS) (k : Kern) (lib : Lib) : forgetAll fs k lib [] = some (k, lib) := rfl

/-- one drained operation, given what the kernel queued and what the reader made of it -/
theorem Sys.op_eq (s : Sys) (op : Op) (hs : s.stopped = false) (hc : s.crashed = false)
    {fs1 : FS} {k1 k2 k3 : Kern} {recs : List NRec} {lib2 lib3 : Lib} {levs : List LEv}
    (hk : kernelOp s.fs s.k op = (fs1, k1, recs))
    (hl : libBatch fs1 k1 s.lib recs = some (k2, lib2, levs))
    (hf : forgetAll fs1 k2 lib2 (if lib2.recursive then movedOut (gsOf levs) else []) = some (k3, lib3)) :
    s.op op = ({ s with fs := fs1, k := k3, lib := lib3, stopped := (emitAll fs1 lib2.recursive s.full (gsOf levs)).2 },
               (emitAll fs1 lib2.recursive s.full (gsOf levs)).1) := by
  unfold Sys.op
  simp only [hk, hs, hc, Bool.or_self, Bool.false_eq_true, if_false, hl]
  simp only [hf]

theorem movedOut_nil_of (gs : List Grouped)
    (h : ∀ g ∈ gs, match g with | .one e => ¬ (e.flag = .movedFrom ∧ e.isDir = true) | _ => True) : movedOut gs = [] := by
  unfold movedOut
  rw [List.filterMap_eq_nil_iff]
  intro g hg
  have := h g hg
  cases g with
  | one e =>
    simp only at this ⊢
    by_cases h1 : e.flag = .movedFrom
    · by_cases h2 : e.isDir = true
      · exact absurd ⟨h1, h2⟩ this
      · simp [h1, h2]
    · simp [h1]
  | two f t => rfl

end WD.Pipe

namespace WD.Pipe

theorem gsOf_noTo (levs : List LEv) (h : ∀ e ∈ levs, e.flag ≠ .movedTo) :
    gsOf levs = (levs.filter (fun l => l.flag != .ignored)).map .one := by
  unfold gsOf
  rw [group_noTo levs h, List.filter_map]
  congr 1

end WD.Pipe
