/- grouping, emission and the shape of one drained operation -/
import WD.Proofs.Pipeline.Inv
set_option linter.unusedSimpArgs false
namespace WD.Pipe


theorem foldl_noTo (step : List Grouped → LEv → List Grouped)
    (hstep : ∀ acc e, e.flag ≠ .movedTo → step acc e = acc ++ [.one e])
    (acc : List Grouped) (levs : List LEv) (h : ∀ e ∈ levs, e.flag ≠ .movedTo) :
    levs.foldl step acc = acc ++ levs.map .one := by
  induction levs generalizing acc with
  | nil => simp
  | cons e rest ih =>
    simp only [List.foldl_cons, hstep acc e (h e (List.mem_cons_self ..))]
    rw [ih _ (fun x hx => h x (List.mem_cons_of_mem _ hx))]
    simp

/-- a batch without MOVED_TO records is passed on record by record -/
theorem group_noTo (levs : List LEv) (h : ∀ e ∈ levs, e.flag ≠ .movedTo) : group levs = levs.map .one := by
  unfold group
  rw [foldl_noTo _ _ [] levs h]
  · simp
  · intro acc e he; simp [he]

theorem foldl_nostop (step : List PEv × Bool → Grouped → List PEv × Bool) (out : Grouped → List PEv)
    (hstep : ∀ acc g, step (acc, false) g = (acc ++ out g, false))
    (acc : List PEv) (gs : List Grouped) :
    gs.foldl step (acc, false) = (acc ++ gs.flatMap out, false) := by
  induction gs generalizing acc with
  | nil => simp
  | cons g rest ih =>
    simp only [List.foldl_cons, hstep, ih, List.flatMap_cons, List.append_assoc]

/-- as long as nothing stops the emitter, the events of a batch are the events of its items in order -/
theorem emitAll_nostop (fs : FS) (r f : Bool) (gs : List Grouped) (h : ∀ g ∈ gs, (emit fs r f g).2 = false) :
    emitAll fs r f gs = (gs.flatMap (fun g => (emit fs r f g).1), false) := by
  unfold emitAll
  have key : ∀ (l : List Grouped) (acc : List PEv), (∀ g ∈ l, (emit fs r f g).2 = false) →
      l.foldl (fun (acc : List PEv × Bool) g =>
        if acc.2 then acc else
        let (e, st) := emit fs r f g
        (acc.1 ++ e, st)) (acc, false) = (acc ++ l.flatMap (fun g => (emit fs r f g).1), false) := by
    intro l
    induction l with
    | nil => intro acc _; simp
    | cons g rest ih =>
      intro acc hl
      have hg := hl g (List.mem_cons_self ..)
      simp only [List.foldl_cons, Bool.false_eq_true, if_false]
      have e1 : emit fs r f g = ((emit fs r f g).1, false) := by rw [← hg]
      rw [e1]
      simp only
      rw [ih _ (fun x hx => hl x (List.mem_cons_of_mem _ hx))]
      simp [List.flatMap_cons]
  simpa using key gs [] h

theorem gsOf_simple (levs : List LEv) (h : ∀ e ∈ levs, e.flag ≠ .movedTo ∧ e.flag ≠ .ignored) :
    gsOf levs = levs.map .one := by
  unfold gsOf
  rw [group_noTo levs (fun e he => (h e he).1)]
  rw [List.filter_eq_self]
  intro g hg
  obtain ⟨e, he, rfl⟩ := List.mem_map.mp hg
  simp [Grouped.keep, (h e he).2]

theorem forgetAll_nil (fs : FS) (k : Kern) (lib : Lib) : forgetAll fs k lib [] = some (k, lib) := rfl

/-- one drained operation, given what the kernel queued and what the reader made of it -/
theorem Sys.op_eq (s : Sys) (op : Op) (hs : s.stopped = false) (hc : s.crashed = false)
    {fs1 : FS} {k1 k2 k3 : Kern} {recs : List NRec} {lib2 lib3 : Lib} {levs : List LEv}
    (hk : kernelOp s.fs s.k op = (fs1, k1, recs))
    (hl : libBatch fs1 k1 s.lib recs = some (k2, lib2, levs))
    (hf : forgetAll fs1 k2 lib2 (if lib2.recursive then movedOut (gsOf levs) else []) = some (k3, lib3)) :
    s.op op = ({ s with fs := fs1, k := k3, lib := lib3, stopped := (emitAll fs1 lib2.recursive s.full (gsOf levs)).2 },
               (emitAll fs1 lib2.recursive s.full (gsOf levs)).1) := by
  unfold Sys.op
  simp only [hk, hs, hc, Bool.or_self, Bool.false_eq_true, if_false, hl]
  simp only [hf]

theorem movedOut_nil_of (gs : List Grouped)
    (h : ∀ g ∈ gs, match g with | .one e => ¬ (e.flag = .movedFrom ∧ e.isDir = true) | _ => True) : movedOut gs = [] := by
  unfold movedOut
  rw [List.filterMap_eq_nil_iff]
  intro g hg
  have := h g hg
  cases g with
  | one e =>
    simp only at this ⊢
    by_cases h1 : e.flag = .movedFrom
    · by_cases h2 : e.isDir = true
      · exact absurd ⟨h1, h2⟩ this
      · simp [h1, h2]
    · simp [h1]
  | two f t => rfl

end WD.Pipe

namespace WD.Pipe

theorem gsOf_noTo (levs : List LEv) (h : ∀ e ∈ levs, e.flag ≠ .movedTo) :
    gsOf levs = (levs.filter (fun l => l.flag != .ignored)).map .one := by
  unfold gsOf
  rw [group_noTo levs h, List.filter_map]
  congr 1

end WD.Pipe
