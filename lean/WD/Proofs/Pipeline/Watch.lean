/- adding and removing single watches; removal of one entry -/
import WD.Proofs.Pipeline.Step
set_option linter.unusedSimpArgs false
namespace WD.Pipe

variable {fs : FS} {k : Kern} {lib : Lib} {cov : Ent → Prop} {z : Option Nat}

/- ---------------- `inotify_add_watch` on a directory that is not watched yet ---------------- -/

def Kern.withWatch (k : Kern) (ino : Nat) : Kern := { k with watches := k.watches ++ [(k.nextWd, ino)], nextWd := k.nextWd + 1 }
def Lib.withWatch (lib : Lib) (p : P) (wd : Nat) : Lib :=
  { lib with wdForPath := setP lib.wdForPath p wd, pathForWd := setW lib.pathForWd wd p }

theorem addWatch_new {e : Ent} (he : fs.find? e.path = some e) (hun : k.wdOfIno e.ino = none) :
    addWatch fs k lib e.path = some (k.withWatch e.ino, lib.withWatch e.path k.nextWd, k.nextWd) := by
  simp [addWatch, he, hun, Kern.withWatch, Lib.withWatch]

theorem wdOfIno_withWatch (k : Kern) (ino i : Nat) :
    (k.withWatch ino).wdOfIno i = (k.wdOfIno i).or (if ino = i then some k.nextWd else none) := by
  unfold Kern.wdOfIno Kern.withWatch
  simp only [List.find?_append, List.find?_cons, List.find?_nil]
  by_cases h : ino = i
  · subst h; cases List.find? (fun w => w.2 == ino) k.watches <;> simp
  · have hb : (ino == i) = false := by simp [h]
    cases List.find? (fun w => w.2 == i) k.watches <;> simp [h, hb]

theorem InvOn.addWatch (inv : InvOn cov z fs k lib) {e : Ent} (he : e ∈ fs.ents) (hd : inTreeDir e = true)
    (hun : k.wdOfIno e.ino = none) :
    InvOn (fun x => cov x ∨ x = e) z fs (k.withWatch e.ino) (lib.withWatch e.path k.nextWd) := by
  have hnot : ∀ w ∈ k.watches, w.2 ≠ e.ino := wdOfIno_none.mp hun
  have hwdlt : ∀ wd p, lookupW lib.pathForWd wd = some p → wd ≠ k.nextWd := by
    intro wd p h hh
    rcases inv.pfwDom wd p h with ⟨ino, hw⟩ | hz
    · have := inv.klt _ hw; simp at this; omega
    · have := inv.zlt wd hz; omega
  refine
    { wf := inv.wf, isRec := inv.isRec, kwd := ?_, kino := ?_, klt := ?_, good := ?_, cover := ?_, pfwDom := ?_,
      zlt := fun w hw => by have := inv.zlt w hw; simp [Kern.withWatch]; omega,
      zdead := by
        intro w hw hz
        simp only [Kern.withWatch, List.mem_append, List.mem_singleton] at hw
        rcases hw with hw | hw
        · exact inv.zdead w hw hz
        · subst hw; have := inv.zlt _ hz; simp at this,
      wfpInv := ?_, wfpNodup := nodup_setP inv.wfpNodup _ _, pfwNodup := nodup_setW inv.pfwNodup _ _, cookies := inv.cookies }
  · simp only [Kern.withWatch, List.map_append, List.map_cons, List.map_nil]
    refine List.nodup_append.mpr ⟨inv.kwd, by simp, ?_⟩
    intro a ha b hb; simp at hb; subst hb
    obtain ⟨w, hw, rfl⟩ := List.mem_map.mp ha
    have := inv.klt w hw; omega
  · simp only [Kern.withWatch, List.map_append, List.map_cons, List.map_nil]
    refine List.nodup_append.mpr ⟨inv.kino, by simp, ?_⟩
    intro a ha b hb; simp at hb; subst hb
    obtain ⟨w, hw, rfl⟩ := List.mem_map.mp ha
    exact hnot w hw
  · intro w hw
    simp only [Kern.withWatch, List.mem_append, List.mem_singleton] at hw ⊢
    rcases hw with hw | hw
    · have := inv.klt w hw; omega
    · subst hw; simp
  · intro w hw
    simp only [Kern.withWatch, List.mem_append, List.mem_singleton] at hw
    rcases hw with hw | hw
    · obtain ⟨e', he', h1, h2, h3, h4⟩ := inv.good w hw
      refine ⟨e', he', h1, h2, ?_, ?_⟩
      · simp only [Lib.withWatch, lookupW_setW]
        have := inv.klt w hw
        have hne : w.1 ≠ k.nextWd := by omega
        simp [hne, h3]
      · simp only [Lib.withWatch, lookupP_setP]
        have hne : e'.path ≠ e.path := by
          intro hp; have := inv.wf.path_inj he' he hp; subst this; exact hnot w hw h1.symm
        simp [hne, h4]
    · subst hw
      exact ⟨e, he, rfl, hd, by simp [Lib.withWatch, lookupW_setW], by simp [Lib.withWatch, lookupP_setP]⟩
  · intro e' he' hd' hc'
    rcases hc' with hc' | hc'
    · obtain ⟨wd, hw⟩ := inv.cover e' he' hd' hc'
      exact ⟨wd, by simp [Kern.withWatch, hw]⟩
    · subst hc'; exact ⟨k.nextWd, by simp [Kern.withWatch]⟩
  · intro wd p h
    simp only [Lib.withWatch, lookupW_setW] at h
    by_cases hwd : wd = k.nextWd
    · subst hwd; exact Or.inl ⟨e.ino, by simp [Kern.withWatch]⟩
    · simp only [hwd, if_false] at h
      rcases inv.pfwDom wd p h with ⟨ino, hw⟩ | hz
      · exact Or.inl ⟨ino, by simp [Kern.withWatch, hw]⟩
      · exact Or.inr hz
  · intro p wd h
    simp only [Lib.withWatch, lookupP_setP] at h
    simp only [Lib.withWatch, lookupW_setW]
    by_cases hp : p = e.path
    · simp only [hp, if_true, Option.some.injEq] at h; subst h; simp [hp]
    · simp only [hp, if_false] at h
      have h1 := inv.wfpInv p wd h
      simp [hwdlt wd p h1, h1]

/- ---------------- the kernel drops a watch; the reader sees IGNORED ---------------- -/

theorem dropWatch_unwatched {k : Kern} {ino : Nat} (h : k.wdOfIno ino = none) : k.dropWatch ino = k := by
  have hn := wdOfIno_none.mp h
  unfold Kern.dropWatch
  have : k.watches.filter (fun w => w.2 != ino) = k.watches := by
    rw [List.filter_eq_self]; intro w hw; simp [hn w hw]
  rw [this]

def Lib.forget (lib : Lib) (p : P) (wd : Nat) : Lib :=
  { lib with wdForPath := lib.wdForPath.filter (fun x => x.1 != p), pathForWd := lib.pathForWd.filter (fun x => x.1 != wd) }

/-- the IGNORED record of a watch that both maps know -/
theorem libRecord_ignored (fs : FS) (k : Kern) (lib : Lib) (wd : Nat) (p : P) (d : Bool) (c : Nat)
    (h1 : lookupW lib.pathForWd wd = some p) (h2 : lookupP lib.wdForPath p = some wd) :
    libRecord fs k lib ⟨wd, .ignored, d, c, none⟩ = some (k, lib.forget p wd, [⟨wd, .ignored, d, c, none, p⟩]) := by
  simp [libRecord, h1, h2, Lib.forget]

theorem InvOn.dropWatch (inv : InvOn cov none fs k lib) {e : Ent} (he : e ∈ fs.ents) {wd : Nat}
    (hw : (wd, e.ino) ∈ k.watches) (hwf : (fs.del e.path).WF) :
    InvOn cov none (fs.del e.path) (k.dropWatch e.ino) (lib.forget e.path wd) := by
  have hmem : ∀ w, w ∈ (k.dropWatch e.ino).watches ↔ w ∈ k.watches ∧ w.2 ≠ e.ino := by
    intro w; simp [Kern.dropWatch]
  have hwd_ne : ∀ w ∈ k.watches, w.2 ≠ e.ino → w.1 ≠ wd := by
    intro w hw' hne hh
    have : w = (wd, e.ino) := inj_of_nodup_map inv.kwd hw' hw (by simpa using hh)
    rw [this] at hne; exact hne rfl
  obtain ⟨e0, he0, hi0, _, hp0, _⟩ := inv.good _ hw
  have : e0 = e := inv.wf.ino_inj he0 he hi0
  subst this
  simp only at hp0
  refine
    { wf := hwf, isRec := inv.isRec, kwd := ?_, kino := ?_, klt := ?_, good := ?_, cover := ?_, pfwDom := ?_,
      zlt := by simp, zdead := by simp,
      wfpInv := ?_, wfpNodup := nodup_keys_filter inv.wfpNodup _, pfwNodup := nodup_keys_filter inv.pfwNodup _,
      cookies := inv.cookies }
  · exact List.Nodup.sublist (List.Sublist.map _ List.filter_sublist) inv.kwd
  · exact List.Nodup.sublist (List.Sublist.map _ List.filter_sublist) inv.kino
  · intro w hw'; exact inv.klt w ((hmem w).mp hw').1
  · intro w hw'
    obtain ⟨hw1, hw2⟩ := (hmem w).mp hw'
    obtain ⟨e', he', h1, h2, h3, h4⟩ := inv.good w hw1
    have hne : e'.path ≠ e0.path := by
      intro hp; have := inv.wf.path_inj he' he hp; subst this; exact hw2 h1.symm
    refine ⟨e', FS.mem_del.mpr ⟨he', hne⟩, h1, h2, ?_, ?_⟩
    · simp [Lib.forget, lookupW_filter_ne, hwd_ne w hw1 hw2, h3]
    · simp [Lib.forget, lookupP_filter_ne, hne, h4]
  · intro e' he' hd' hc'
    obtain ⟨he1, he2⟩ := FS.mem_del.mp he'
    obtain ⟨wd', hw'⟩ := inv.cover e' he1 hd' hc'
    refine ⟨wd', (hmem _).mpr ⟨hw', ?_⟩⟩
    intro hi; exact he2 (congrArg Ent.path (inv.wf.ino_inj he1 he hi))
  · intro wd' p h
    simp only [Lib.forget, lookupW_filter_ne] at h
    by_cases hwd : wd' = wd
    · simp [hwd] at h
    · simp only [hwd, if_false] at h
      obtain ⟨ino, hw'⟩ := (inv.pfwDom wd' p h).resolve_right (by simp)
      refine Or.inl ⟨ino, (hmem _).mpr ⟨hw', ?_⟩⟩
      intro hi; subst hi
      exact hwd (by simpa using congrArg Prod.fst (inj_of_nodup_map inv.kino hw' hw rfl))
  · intro p wd' h
    simp only [Lib.forget, lookupP_filter_ne] at h
    by_cases hp : p = e0.path
    · simp [hp] at h
    · simp only [hp, if_false] at h
      have h1 := inv.wfpInv p wd' h
      have hwd : wd' ≠ wd := by
        intro hh; subst hh; rw [hp0] at h1; exact hp (Option.some.inj h1).symm
      simp [Lib.forget, lookupW_filter_ne, hwd, h1]

end WD.Pipe

namespace WD.Pipe
variable {fs : FS} {k : Kern} {lib : Lib} {cov : Ent → Prop} {z : Option Nat}

theorem wdOfIno_dropWatch (k : Kern) (i j : Nat) :
    (k.dropWatch i).wdOfIno j = if j = i then none else k.wdOfIno j := by
  unfold Kern.wdOfIno Kern.dropWatch
  simp only [List.find?_filter]
  by_cases h : j = i
  · subst h
    simp only [if_true, Option.map_eq_none_iff]
    rw [List.find?_eq_none]; intro x _; simp
  · simp only [h, if_false]
    congr 1; congr 1; funext x
    by_cases hx : x.2 = j
    · simp [hx, h]
    · simp [hx]

/-- the kernel has dropped the watch of a removed directory, the reader has not seen the IGNORED yet:
    the descriptor lingers in the maps -/
theorem InvOn.dropWatch_zombie (inv : InvOn cov none fs k lib) {e : Ent} (he : e ∈ fs.ents) {wd : Nat}
    (hw : (wd, e.ino) ∈ k.watches) (hwf : (fs.del e.path).WF) :
    InvOn cov (some wd) (fs.del e.path) (k.dropWatch e.ino) lib := by
  have hmem : ∀ w, w ∈ (k.dropWatch e.ino).watches ↔ w ∈ k.watches ∧ w.2 ≠ e.ino := by
    intro w; simp [Kern.dropWatch]
  refine
    { wf := hwf, isRec := inv.isRec, kwd := ?_, kino := ?_, klt := ?_, good := ?_, cover := ?_, pfwDom := ?_,
      zlt := ?_, zdead := ?_, wfpInv := inv.wfpInv, wfpNodup := inv.wfpNodup, pfwNodup := inv.pfwNodup,
      cookies := inv.cookies }
  · exact List.Nodup.sublist (List.Sublist.map _ List.filter_sublist) inv.kwd
  · exact List.Nodup.sublist (List.Sublist.map _ List.filter_sublist) inv.kino
  · intro w hw'; exact inv.klt w ((hmem w).mp hw').1
  · intro w hw'
    obtain ⟨hw1, hw2⟩ := (hmem w).mp hw'
    obtain ⟨e', he', h1, h2, h3, h4⟩ := inv.good w hw1
    have hne : e'.path ≠ e.path := by
      intro hp; have := inv.wf.path_inj he' he hp; subst this; exact hw2 h1.symm
    exact ⟨e', FS.mem_del.mpr ⟨he', hne⟩, h1, h2, h3, h4⟩
  · intro e' he' hd' hc'
    obtain ⟨he1, he2⟩ := FS.mem_del.mp he'
    obtain ⟨wd', hw'⟩ := inv.cover e' he1 hd' hc'
    refine ⟨wd', (hmem _).mpr ⟨hw', ?_⟩⟩
    intro hi; exact he2 (congrArg Ent.path (inv.wf.ino_inj he1 he hi))
  · intro wd' p h
    obtain ⟨ino, hw'⟩ := (inv.pfwDom wd' p h).resolve_right (by simp)
    by_cases hi : ino = e.ino
    · subst hi; right
      have := inj_of_nodup_map inv.kino hw' hw rfl
      have h2 : wd' = wd := by simpa using congrArg Prod.fst this
      rw [h2]
    · exact Or.inl ⟨ino, (hmem _).mpr ⟨hw', hi⟩⟩
  · intro w hz; cases hz; have := inv.klt _ hw; simp only [Kern.dropWatch]; simpa using this
  · intro w hw' hz
    obtain ⟨hw1, hw2⟩ := (hmem w).mp hw'
    simp only [Option.some.injEq] at hz
    have : w = (wd, e.ino) := inj_of_nodup_map inv.kwd hw1 hw (by simpa using hz.symm)
    rw [this] at hw2; exact hw2 rfl

def Lib.bury (lib : Lib) (p : P) (wd : Nat) : Lib :=
  { lib with wdForPath := if lookupP lib.wdForPath p == some wd then lib.wdForPath.filter (fun x => x.1 != p) else lib.wdForPath,
             pathForWd := lib.pathForWd.filter (fun x => x.1 != wd) }

theorem libRecord_ignored' (fs : FS) (k : Kern) (lib : Lib) (wd : Nat) (p : P) (d : Bool) (c : Nat)
    (h1 : lookupW lib.pathForWd wd = some p) :
    libRecord fs k lib ⟨wd, .ignored, d, c, none⟩ = some (k, lib.bury p wd, [⟨wd, .ignored, d, c, none, p⟩]) := by
  simp [libRecord, h1, Lib.bury]

/-- the reader sees the IGNORED of a lingering descriptor -/
theorem InvOn.bury {zw : Nat} (inv : InvOn cov (some zw) fs k lib) {pz : P} (hz : lookupW lib.pathForWd zw = some pz) :
    InvOn cov none fs k (lib.bury pz zw) := by
  have hlive : ∀ w ∈ k.watches, w.1 ≠ zw := by
    intro w hw hh; exact inv.zdead w hw (by rw [hh])
  refine
    { wf := inv.wf, isRec := inv.isRec, kwd := inv.kwd, kino := inv.kino, klt := inv.klt, good := ?_, cover := inv.cover,
      pfwDom := ?_, zlt := by simp, zdead := by simp, wfpInv := ?_, wfpNodup := ?_,
      pfwNodup := nodup_keys_filter inv.pfwNodup _, cookies := inv.cookies }
  · intro w hw
    obtain ⟨e', he', h1, h2, h3, h4⟩ := inv.good w hw
    refine ⟨e', he', h1, h2, ?_, ?_⟩
    · simp [Lib.bury, lookupW_filter_ne, hlive w hw, h3]
    · simp only [Lib.bury]
      split
      · rename_i hq
        have hq' : lookupP lib.wdForPath pz = some zw := by simpa using hq
        have : e'.path ≠ pz := by
          intro hh; rw [hh, hq'] at h4; exact hlive w hw (Option.some.inj h4).symm
        simp [lookupP_filter_ne, this, h4]
      · exact h4
  · intro wd p h
    simp only [Lib.bury, lookupW_filter_ne] at h
    by_cases hwd : wd = zw
    · simp [hwd] at h
    · simp only [hwd, if_false] at h
      rcases inv.pfwDom wd p h with h1 | h1
      · exact Or.inl h1
      · exact absurd (Option.some.inj h1).symm hwd
  · intro p wd h
    have hcases : lookupP lib.wdForPath p = some wd ∧ ¬ (p = pz ∧ lookupP lib.wdForPath pz = some zw) := by
      simp only [Lib.bury] at h
      split at h
      · rename_i hq
        have hq' : lookupP lib.wdForPath pz = some zw := by simpa using hq
        rw [lookupP_filter_ne] at h
        by_cases hp : p = pz
        · simp [hp] at h
        · simp only [hp, if_false] at h; exact ⟨h, fun hh => hp hh.1⟩
      · rename_i hq
        exact ⟨h, fun hh => hq (by simp [hh.2])⟩
    have h1 := inv.wfpInv p wd hcases.1
    have hwd : wd ≠ zw := by
      intro hh; subst hh
      rw [hz] at h1
      have hp : p = pz := (Option.some.inj h1).symm
      exact hcases.2 ⟨hp, hp ▸ hcases.1⟩
    simp [Lib.bury, lookupW_filter_ne, hwd, h1]
  · simp only [Lib.bury]
    split
    · exact nodup_keys_filter inv.wfpNodup _
    · exact inv.wfpNodup

end WD.Pipe
