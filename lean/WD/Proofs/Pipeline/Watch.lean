/- adding and removing single watches; removal of one entry -/
import WD.Proofs.Pipeline.Step
set_option linter.unusedSimpArgs false
namespace WD.Pipe

variable {fs : FS} {k : Kern} {lib : Lib} {cov : Ent → Prop}

/- ---------------- `inotify_add_watch` on a directory that is not watched yet ---------------- -/

def Kern.withWatch (k : Kern) (ino : Nat) : Kern := { k with watches := k.watches ++ [(k.nextWd, ino)], nextWd := k.nextWd + 1 }
def Lib.withWatch (lib : Lib) (p : P) (wd : Nat) : Lib :=
  { lib with wdForPath := setP lib.wdForPath p wd, pathForWd := setW lib.pathForWd wd p }

theorem addWatch_new {e : Ent} (he : fs.find? e.path = some e) (hun : k.wdOfIno e.ino = none) :
    addWatch fs k lib e.path = some (k.withWatch e.ino, lib.withWatch e.path k.nextWd, k.nextWd) := by
  simp [addWatch, he, hun, Kern.withWatch, Lib.withWatch]

theorem wdOfIno_withWatch (k : Kern) (ino i : Nat) :
    (k.withWatch ino).wdOfIno i = (k.wdOfIno i).or (if ino = i then some k.nextWd else none) := by
  unfold Kern.wdOfIno Kern.withWatch
  simp only [List.find?_append, List.find?_cons, List.find?_nil]
  by_cases h : ino = i
  · subst h; cases List.find? (fun w => w.2 == ino) k.watches <;> simp
  · have hb : (ino == i) = false := by simp [h]
    cases List.find? (fun w => w.2 == i) k.watches <;> simp [h, hb]

theorem InvOn.addWatch (inv : InvOn cov fs k lib) {e : Ent} (he : e ∈ fs.ents) (hd : inTreeDir e = true)
    (hun : k.wdOfIno e.ino = none) :
    InvOn (fun x => cov x ∨ x = e) fs (k.withWatch e.ino) (lib.withWatch e.path k.nextWd) := by
  have hnot : ∀ w ∈ k.watches, w.2 ≠ e.ino := wdOfIno_none.mp hun
  have hwdlt : ∀ wd p, lookupW lib.pathForWd wd = some p → wd ≠ k.nextWd := by
    intro wd p h hh
    obtain ⟨ino, hw⟩ := inv.pfwDom wd p h
    have := inv.klt _ hw; simp at this; omega
  refine
    { wf := inv.wf, isRec := inv.isRec, kwd := ?_, kino := ?_, klt := ?_, good := ?_, cover := ?_, pfwDom := ?_,
      wfpInv := ?_, wfpNodup := nodup_setP inv.wfpNodup _ _, pfwNodup := nodup_setW inv.pfwNodup _ _, cookies := inv.cookies }
  · simp only [Kern.withWatch, List.map_append, List.map_cons, List.map_nil]
    refine List.nodup_append.mpr ⟨inv.kwd, by simp, ?_⟩
    intro a ha b hb; simp at hb; subst hb
    obtain ⟨w, hw, rfl⟩ := List.mem_map.mp ha
    have := inv.klt w hw; omega
  · simp only [Kern.withWatch, List.map_append, List.map_cons, List.map_nil]
    refine List.nodup_append.mpr ⟨inv.kino, by simp, ?_⟩
    intro a ha b hb; simp at hb; subst hb
    obtain ⟨w, hw, rfl⟩ := List.mem_map.mp ha
    exact hnot w hw
  · intro w hw
    simp only [Kern.withWatch, List.mem_append, List.mem_singleton] at hw ⊢
    rcases hw with hw | hw
    · have := inv.klt w hw; omega
    · subst hw; simp
  · intro w hw
    simp only [Kern.withWatch, List.mem_append, List.mem_singleton] at hw
    rcases hw with hw | hw
    · obtain ⟨e', he', h1, h2, h3, h4⟩ := inv.good w hw
      refine ⟨e', he', h1, h2, ?_, ?_⟩
      · simp only [Lib.withWatch, lookupW_setW]
        have := inv.klt w hw
        have hne : w.1 ≠ k.nextWd := by omega
        simp [hne, h3]
      · simp only [Lib.withWatch, lookupP_setP]
        have hne : e'.path ≠ e.path := by
          intro hp; have := inv.wf.path_inj he' he hp; subst this; exact hnot w hw h1.symm
        simp [hne, h4]
    · subst hw
      exact ⟨e, he, rfl, hd, by simp [Lib.withWatch, lookupW_setW], by simp [Lib.withWatch, lookupP_setP]⟩
  · intro e' he' hd' hc'
    rcases hc' with hc' | hc'
    · obtain ⟨wd, hw⟩ := inv.cover e' he' hd' hc'
      exact ⟨wd, by simp [Kern.withWatch, hw]⟩
    · subst hc'; exact ⟨k.nextWd, by simp [Kern.withWatch]⟩
  · intro wd p h
    simp only [Lib.withWatch, lookupW_setW] at h
    by_cases hwd : wd = k.nextWd
    · subst hwd; exact ⟨e.ino, by simp [Kern.withWatch]⟩
    · simp only [hwd, if_false] at h
      obtain ⟨ino, hw⟩ := inv.pfwDom wd p h
      exact ⟨ino, by simp [Kern.withWatch, hw]⟩
  · intro p wd h
    simp only [Lib.withWatch, lookupP_setP] at h
    simp only [Lib.withWatch, lookupW_setW]
    by_cases hp : p = e.path
    · simp only [hp, if_true, Option.some.injEq] at h; subst h; simp [hp]
    · simp only [hp, if_false] at h
      have h1 := inv.wfpInv p wd h
      simp [hwdlt wd p h1, h1]

/- ---------------- the kernel drops a watch; the reader sees IGNORED ---------------- -/

theorem dropWatch_unwatched {k : Kern} {ino : Nat} (h : k.wdOfIno ino = none) : k.dropWatch ino = k := by
  have hn := wdOfIno_none.mp h
  unfold Kern.dropWatch
  have : k.watches.filter (fun w => w.2 != ino) = k.watches := by
    rw [List.filter_eq_self]; intro w hw; simp [hn w hw]
  rw [this]

def Lib.forget (lib : Lib) (p : P) (wd : Nat) : Lib :=
  { lib with wdForPath := lib.wdForPath.filter (fun x => x.1 != p), pathForWd := lib.pathForWd.filter (fun x => x.1 != wd) }

/-- the IGNORED record of a watch that both maps know -/
theorem libRecord_ignored (fs : FS) (k : Kern) (lib : Lib) (wd : Nat) (p : P) (d : Bool) (c : Nat)
    (h1 : lookupW lib.pathForWd wd = some p) (h2 : lookupP lib.wdForPath p = some wd) :
    libRecord fs k lib ⟨wd, .ignored, d, c, none⟩ = some (k, lib.forget p wd, [⟨wd, .ignored, d, c, none, p⟩]) := by
  simp [libRecord, h1, h2, Lib.forget]

theorem InvOn.dropWatch (inv : InvOn cov fs k lib) {e : Ent} (he : e ∈ fs.ents) {wd : Nat}
    (hw : (wd, e.ino) ∈ k.watches) (hwf : (fs.del e.path).WF) :
    InvOn cov (fs.del e.path) (k.dropWatch e.ino) (lib.forget e.path wd) := by
  have hmem : ∀ w, w ∈ (k.dropWatch e.ino).watches ↔ w ∈ k.watches ∧ w.2 ≠ e.ino := by
    intro w; simp [Kern.dropWatch]
  have hwd_ne : ∀ w ∈ k.watches, w.2 ≠ e.ino → w.1 ≠ wd := by
    intro w hw' hne hh
    have : w = (wd, e.ino) := inj_of_nodup_map inv.kwd hw' hw (by simpa using hh)
    rw [this] at hne; exact hne rfl
  obtain ⟨e0, he0, hi0, _, hp0, _⟩ := inv.good _ hw
  have : e0 = e := inv.wf.ino_inj he0 he hi0
  subst this
  simp only at hp0
  refine
    { wf := hwf, isRec := inv.isRec, kwd := ?_, kino := ?_, klt := ?_, good := ?_, cover := ?_, pfwDom := ?_,
      wfpInv := ?_, wfpNodup := nodup_keys_filter inv.wfpNodup _, pfwNodup := nodup_keys_filter inv.pfwNodup _,
      cookies := inv.cookies }
  · exact List.Nodup.sublist (List.Sublist.map _ List.filter_sublist) inv.kwd
  · exact List.Nodup.sublist (List.Sublist.map _ List.filter_sublist) inv.kino
  · intro w hw'; exact inv.klt w ((hmem w).mp hw').1
  · intro w hw'
    obtain ⟨hw1, hw2⟩ := (hmem w).mp hw'
    obtain ⟨e', he', h1, h2, h3, h4⟩ := inv.good w hw1
    have hne : e'.path ≠ e0.path := by
      intro hp; have := inv.wf.path_inj he' he hp; subst this; exact hw2 h1.symm
    refine ⟨e', FS.mem_del.mpr ⟨he', hne⟩, h1, h2, ?_, ?_⟩
    · simp [Lib.forget, lookupW_filter_ne, hwd_ne w hw1 hw2, h3]
    · simp [Lib.forget, lookupP_filter_ne, hne, h4]
  · intro e' he' hd' hc'
    obtain ⟨he1, he2⟩ := FS.mem_del.mp he'
    obtain ⟨wd', hw'⟩ := inv.cover e' he1 hd' hc'
    refine ⟨wd', (hmem _).mpr ⟨hw', ?_⟩⟩
    intro hi; exact he2 (congrArg Ent.path (inv.wf.ino_inj he1 he hi))
  · intro wd' p h
    simp only [Lib.forget, lookupW_filter_ne] at h
    by_cases hwd : wd' = wd
    · simp [hwd] at h
    · simp only [hwd, if_false] at h
      obtain ⟨ino, hw'⟩ := inv.pfwDom wd' p h
      refine ⟨ino, (hmem _).mpr ⟨hw', ?_⟩⟩
      intro hi; subst hi
      exact hwd (by simpa using congrArg Prod.fst (inj_of_nodup_map inv.kino hw' hw rfl))
  · intro p wd' h
    simp only [Lib.forget, lookupP_filter_ne] at h
    by_cases hp : p = e0.path
    · simp [hp] at h
    · simp only [hp, if_false] at h
      have h1 := inv.wfpInv p wd' h
      have hwd : wd' ≠ wd := by
        intro hh; subst hh; rw [hp0] at h1; exact hp (Option.some.inj h1).symm
      simp [Lib.forget, lookupW_filter_ne, hwd, h1]

end WD.Pipe
