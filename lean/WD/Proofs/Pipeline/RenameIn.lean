/- a directory arrives from outside the watched tree: it is watched, with what it holds -/
import WD.Proofs.Pipeline.RenameOut
set_option linter.unusedSimpArgs false
namespace WD.Pipe

variable {fs : FS} {k : Kern} {lib : Lib} {cov : Ent → Prop} {z : Option Nat}

def addStep (fs : FS) (acc : Kern × Lib) (e : Ent) : Kern × Lib :=
  match addWatch fs acc.1 acc.2 e.path with
  | some (k1, l1, _) => (k1, l1)
  | none => acc

theorem addTreeWatches_eq (fs : FS) (k : Kern) (lib : Lib) (p : P) :
    addTreeWatches fs k lib p = ((fs.find? p).toList ++ (fs.descendants p).filter (·.isDir)).foldl (addStep fs) (k, lib) := rfl

/-- watches for a list of distinct, not yet watched directories of the tree -/
theorem addTree_fold (hwf : fs.WF) (ds : List Ent) : ∀ (k : Kern) (lib : Lib) (cov : Ent → Prop),
    InvOn cov z fs k lib → ds.Nodup → (∀ d ∈ ds, d ∈ fs.ents ∧ inTreeDir d = true ∧ k.wdOfIno d.ino = none) →
    InvOn (fun y => cov y ∨ y ∈ ds) z fs (ds.foldl (addStep fs) (k, lib)).1 (ds.foldl (addStep fs) (k, lib)).2 ∧
    (∀ w, w < k.nextWd → lookupW (ds.foldl (addStep fs) (k, lib)).2.pathForWd w = lookupW lib.pathForWd w) ∧
    (ds.foldl (addStep fs) (k, lib)).1.nextCookie = k.nextCookie ∧
    (ds.foldl (addStep fs) (k, lib)).2.movedFrom = lib.movedFrom := by
  induction ds with
  | nil =>
    intro k lib cov inv _ _
    exact ⟨inv.mono (fun e _ _ h => h.elim id (fun h => by cases h)), fun _ _ => rfl, rfl, rfl⟩
  | cons d rest ih =>
    intro k lib cov inv hnd hds
    simp only [List.nodup_cons] at hnd
    obtain ⟨hd1, hd2, hd3⟩ := hds d (List.mem_cons_self ..)
    have hstep : addStep fs (k, lib) d = (k.withWatch d.ino, lib.withWatch d.path k.nextWd) := by
      simp [addStep, addWatch_new (hwf.find_mem hd1) hd3]
    simp only [List.foldl_cons, hstep]
    have inv1 := inv.addWatch hd1 hd2 hd3
    have hrest : ∀ x ∈ rest, x ∈ fs.ents ∧ inTreeDir x = true ∧ (k.withWatch d.ino).wdOfIno x.ino = none := by
      intro x hx
      obtain ⟨a, b, c⟩ := hds x (List.mem_cons_of_mem _ hx)
      refine ⟨a, b, ?_⟩
      rw [wdOfIno_withWatch, c]
      have : d.ino ≠ x.ino := by
        intro hi; have := hwf.ino_inj hd1 a hi; subst this; exact hnd.1 hx
      simp [this]
    obtain ⟨i1, i2, i3, i4⟩ := ih _ _ _ inv1 hnd.2 hrest
    refine ⟨i1.mono ?_, ?_, ?_, ?_⟩
    · intro y _ _ hy
      rcases hy with hy | hy
      · exact Or.inl (Or.inl hy)
      · rcases List.mem_cons.mp hy with rfl | hy
        · exact Or.inl (Or.inr rfl)
        · exact Or.inr hy
    · intro w hw
      rw [i2 w (by simp [Kern.withWatch]; omega)]
      simp only [Lib.withWatch, lookupW_setW]
      have : w ≠ k.nextWd := by omega
      simp [this]
    · rw [i3]; rfl
    · rw [i4]; rfl

end WD.Pipe

namespace WD.Pipe
variable {fs : FS} {k : Kern} {lib : Lib} {z : Option Nat} {q : P}

/-- the records of a replaced directory of the tree, after the move itself has been dealt with -/
theorem rrep_phase (inv2 : InvOn (fun _ => True) z fs k lib) (rrep : List NRec) (tail : List PEv) (hq2 : 2 ≤ q.length)
    (hz : (z = none ∧ rrep = [] ∧ tail = []) ∨
      (∃ wd, z = some wd ∧ lookupW lib.pathForWd wd = some q ∧ tail = [mkEv .DirModifiedEvent q] ∧
        rrep = [⟨wd, .attrib, true, 0, none⟩, ⟨wd, .deleteSelf, false, 0, none⟩, ⟨wd, .ignored, false, 0, none⟩])) :
    ∃ lib' levs, libBatch fs k lib rrep = some (k, lib', levs) ∧ InvRec fs k lib' ∧
      (∀ l ∈ levs, l.flag ≠ .movedTo ∧ l.flag ≠ .movedFrom) ∧
      (∀ fsX full, emitAll fsX true full ((levs.filter (fun l => l.flag != .ignored)).map .one) = (tail, false)) := by
  rcases hz with ⟨rfl, rfl, rfl⟩ | ⟨wd, rfl, hzq, rfl, rfl⟩
  · exact ⟨lib, [], rfl, inv2, by simp, by intro _ _; rfl⟩
  · have hnW : q ≠ ["W"] := by intro h; subst h; simp at hq2
    refine ⟨lib.bury q wd, [⟨wd, .attrib, true, 0, none, q⟩, ⟨wd, .deleteSelf, false, 0, none, q⟩, ⟨wd, .ignored, false, 0, none, q⟩],
      ?_, inv2.bury hzq, ?_, ?_⟩
    · rw [libBatch_cons, libRecord_simple fs k lib _ q (by simp [simpleFlag]) hzq]
      simp only
      rw [libBatch_cons, libRecord_simple fs k lib _ q (by simp [simpleFlag]) hzq]
      simp only
      rw [libBatch_cons, libRecord_ignored' fs k lib wd q false 0 hzq]
      simp [libBatch_nil, NRec.toLEv, NRec.src]
    · intro l hl; simp at hl; rcases hl with rfl | rfl | rfl <;> simp
    · intro fsX full
      simp [List.filter_cons, emitAll_cons, emitAll_nil, emit, hnW, mkEv]

theorem movedOut_append (a b : List Grouped) : movedOut (a ++ b) = movedOut a ++ movedOut b := by
  simp [movedOut, List.filterMap_append]

theorem movedOut_ones_nil (levs : List LEv) (h : ∀ l ∈ levs, l.flag ≠ .movedFrom) : movedOut (levs.map .one) = [] := by
  apply movedOut_nil_of
  intro g hg
  obtain ⟨l, hl, rfl⟩ := List.mem_map.mp hg
  simp only
  intro hh; exact h l hl hh.1

end WD.Pipe

namespace WD.Pipe

/-- putting a rename together: the two halves of the move, then the records of a replaced directory -/
theorem rename_assemble (s : Sys) (p q : P) (hs : s.stopped = false) (hc : s.crashed = false) (hq2 : 2 ≤ q.length)
    {fsR : FS} {kB kB' : Kern} {R12 rrep : List NRec} {L2 : Lib} {levs12 : List LEv} {z : Option Nat}
    {E12 tail : List PEv}
    (hk : kernelOp s.fs s.k (.rename p q) = (fsR, kB, R12 ++ rrep))
    (hl12 : libBatch fsR kB s.lib R12 = some (kB', L2, levs12))
    (inv2 : InvOn (fun _ => True) z fsR kB' L2)
    (hz : (z = none ∧ rrep = [] ∧ tail = []) ∨
      (∃ wd, z = some wd ∧ lookupW L2.pathForWd wd = some q ∧ tail = [mkEv .DirModifiedEvent q] ∧
        rrep = [⟨wd, .attrib, true, 0, none⟩, ⟨wd, .deleteSelf, false, 0, none⟩, ⟨wd, .ignored, false, 0, none⟩]))
    (hmo : movedOut (gsOf levs12) = [])
    (hem : emitAll fsR true s.full (gsOf levs12) = (E12, false))
    (hcon : contract s.fs true s.full (.rename p q) = (E12 ++ tail, false)) : StepRec s (.rename p q) := by
  obtain ⟨lib', levs3, hb3, inv3, hfl3, hem3⟩ := rrep_phase inv2 rrep tail hq2 hz
  have hl : libBatch fsR kB s.lib (R12 ++ rrep) = some (kB', lib', levs12 ++ levs3) := by
    rw [libBatch_append _ _ _ _ _ hl12, hb3]
  have hgs := gsOf_append_noTo levs12 levs3 (fun x hx => (hfl3 x hx).1)
  have hmo' : movedOut (gsOf (levs12 ++ levs3)) = [] := by
    rw [hgs, movedOut_append, hmo, movedOut_ones_nil]
    · rfl
    · intro l hl; exact (hfl3 l (List.mem_filter.mp hl).1).2
  have hf : forgetAll fsR kB' lib' (if lib'.recursive then movedOut (gsOf (levs12 ++ levs3)) else []) = some (kB', lib') := by
    rw [hmo']; simp [forgetAll_nil]
  have hop := Sys.op_eq s _ hs hc hk hl hf
  have hemT : emitAll fsR lib'.recursive s.full (gsOf (levs12 ++ levs3)) = (E12 ++ tail, false) := by
    rw [inv3.isRec, hgs, emitAll_append _ _ _ _ _ (by rw [hem]), hem, hem3]
  rw [hemT] at hop
  exact ⟨by rw [hop, hcon], by rw [hop, hcon], by rw [hop]; exact hc, by rw [hop], fun _ => by rw [hop]; exact inv3⟩

end WD.Pipe

namespace WD.Pipe

theorem step_rename_in (s : Sys) (p q : P) (e : Ent) (inv : InvRec s.fs s.k s.lib) (hs : s.stopped = false)
    (hc : s.crashed = false) (ok : RenameOK s.fs p q e) (hd : e.isDir = true)
    (hwp : watchedDir s.fs true (parentOf p) = false) (hwq : watchedDir s.fs true (parentOf q) = true) :
    StepRec s (.rename p q) := by
  obtain ⟨z, k0, rrep, hk, inv0, hck, hz⟩ := rename_kernel inv ok
  have hwf := inv.wf
  have hwfR := ok.wf hwf
  have hqb := snoc_parent_base (ne_nil_of_two_le ok.hq2)
  have hem := FS.find?_some ok.he
  rcases inv.parent_recs p with ⟨hwp', _⟩ | ⟨_, hrp⟩
  case inl => rw [hwp] at hwp'; cases hwp'
  rcases inv.parent_recs q with ⟨_, wdq, hq1, _, hrq⟩ | ⟨hwq', _⟩
  case inr => rw [hwq] at hwq'; cases hwq'
  let kB : Kern := { k0 with nextCookie := s.k.nextCookie + 1 }
  let fsR := s.fs.renamed p q
  have hk' : kernelOp s.fs s.k (.rename p q) = (fsR, kB, [⟨wdq, .movedTo, true, s.k.nextCookie, some (baseName q)⟩] ++ rrep) := by
    rw [hk]; simp [fromRecs, toRecs, hrp, hrq, hd, kB, fsR]
  -- what was moved is not a directory of the tree before the move, and is one afterwards
  have hmovedT : ∀ x ∈ s.fs.ents, (x.path = p ∨ isUnder p x.path = true) →
      inTreeDir x = false ∧ inTreeDir (rwEnt p q x) = x.isDir := by
    intro x _ hm
    have := ok.moved_inTree hwf hm
    simp [this.1, this.2, hwp, hwq]
  have inv0' : InvOn (fun y => ¬ (y.path = q ∨ isUnder q y.path = true)) z fsR kB s.lib := by
    have hb := inv0.bump (s.k.nextCookie + 1) (by omega)
    refine
      { wf := hwfR, isRec := hb.isRec, kwd := hb.kwd, kino := hb.kino, klt := hb.klt, good := ?_, cover := ?_,
        pfwDom := hb.pfwDom, zlt := hb.zlt, zdead := hb.zdead, wfpInv := hb.wfpInv, wfpNodup := hb.wfpNodup,
        pfwNodup := hb.pfwNodup, cookies := hb.cookies }
    · intro w hw
      obtain ⟨x, hx, h1, h2, h3, h4⟩ := hb.good w hw
      obtain ⟨hxf, hxq⟩ := FS.mem_del.mp hx
      have u : ¬ (x.path = p ∨ isUnder p x.path = true) := by
        intro hm; rw [(hmovedT x hxf hm).1] at h2; cases h2
      have u1 : x.path ≠ p := fun h => u (Or.inl h)
      have u2 : isUnder p x.path = false := by
        cases h : isUnder p x.path with
        | false => rfl
        | true => exact absurd (Or.inr h) u
      exact ⟨x, FS.mem_renamed.mpr ⟨x, hxf, hxq, (rwEnt_fixed u1 u2).symm⟩, h1, h2, h3, h4⟩
    · intro y hy hty hcy
      obtain ⟨x, hxf, hxq, rfl⟩ := FS.mem_renamed.mp hy
      rcases rwPath_cases p q x.path with ⟨_, e1⟩ | ⟨_, _, u1⟩ | ⟨h1, h2, _⟩
      · exact absurd (Or.inl (by simpa [rwEnt] using e1)) hcy
      · exact absurd (Or.inr (by simpa [rwEnt] using u1)) hcy
      · rw [rwEnt_fixed h1 h2] at hty ⊢
        exact hb.cover x (FS.mem_del.mpr ⟨hxf, hxq⟩) hty trivial
  -- the arriving directories
  have hfindq : fsR.find? q = some (rwEnt p q e) := by
    have : rwEnt p q e ∈ fsR.ents := FS.mem_renamed.mpr ⟨e, hem.1, by rw [hem.2]; exact ok.hne, rfl⟩
    have h2 := hwfR.find_mem this
    simpa [rwEnt, hem.2, rwPath_at] using h2
  let ds : List Ent := [rwEnt p q e] ++ (fsR.descendants q).filter (·.isDir)
  have hds_mem : ∀ d ∈ ds, d ∈ fsR.ents ∧ inTreeDir d = true ∧ kB.wdOfIno d.ino = none := by
    intro d hdm
    have hdin : d ∈ fsR.ents ∧ d.isDir = true ∧ (d.path = q ∨ isUnder q d.path = true) := by
      rcases List.mem_append.mp hdm with h | h
      · simp at h; subst h
        exact ⟨(FS.find?_some hfindq).1, by simpa [rwEnt] using hd, Or.inl (by simp [rwEnt, hem.2, rwPath_at])⟩
      · obtain ⟨h1, h2⟩ := List.mem_filter.mp h
        obtain ⟨h3, h4⟩ := List.mem_filter.mp h1
        exact ⟨h3, by simpa using h2, Or.inr h4⟩
    obtain ⟨x, hxf, hxq, rfl⟩ := FS.mem_renamed.mp hdin.1
    have hm : x.path = p ∨ isUnder p x.path = true := by
      rcases rwPath_cases p q x.path with ⟨h1, _⟩ | ⟨h1, _, _⟩ | ⟨h1, h2, e1⟩
      · exact Or.inl h1
      · exact Or.inr h1
      · exfalso
        have hq' := hdin.2.2
        simp only [rwEnt, e1] at hq'
        rcases hq' with h | h
        · exact hxq h
        · have := ok.q_free hwf x hxf hxq; rw [h] at this; cases this
    have hT := hmovedT x hxf hm
    refine ⟨hdin.1, by rw [hT.2]; simpa [rwEnt] using hdin.2.1, ?_⟩
    show k0.wdOfIno x.ino = none
    exact inv0.unwatched (e := x) (FS.mem_del.mpr ⟨hxf, hxq⟩) hT.1
  have hds_nd : ds.Nodup := by
    have hsub : ((fsR.descendants q).filter (·.isDir)).Nodup :=
      List.Nodup.sublist (List.filter_sublist.trans List.filter_sublist) (nodup_of_map_nodup _ hwfR.paths)
    refine List.nodup_append.mpr ⟨by simp, hsub, ?_⟩
    intro a ha b hb hab
    simp at ha; subst ha; subst hab
    have := (List.mem_filter.mp (List.mem_filter.mp hb).1).2
    simp [rwEnt, hem.2, rwPath_at, isUnder_irrefl] at this
  obtain ⟨i1, i2, i3, i4⟩ := addTree_fold hwfR ds kB s.lib _ inv0' hds_nd hds_mem
  have haddeq : addTreeWatches fsR kB s.lib q = ds.foldl (addStep fsR) (kB, s.lib) := by
    rw [addTreeWatches_eq, hfindq]; rfl
  let kD := (ds.foldl (addStep fsR) (kB, s.lib)).1
  let LD := (ds.foldl (addStep fsR) (kB, s.lib)).2
  have invD : InvOn (fun _ => True) z fsR kD LD := by
    apply i1.mono
    intro y hy hty _
    by_cases hcy : y.path = q ∨ isUnder q y.path = true
    · right
      rcases hcy with h | h
      · have : y = rwEnt p q e := hwfR.path_inj hy (FS.find?_some hfindq).1 (by simp [h, rwEnt, hem.2, rwPath_at])
        simp [ds, this]
      · apply List.mem_append_right
        exact List.mem_filter.mpr ⟨List.mem_filter.mpr ⟨hy, h⟩, by simpa using (inTreeDir_iff.mp hty).1⟩
    · exact Or.inl hcy
  have hl12 : libBatch fsR kB s.lib [⟨wdq, .movedTo, true, s.k.nextCookie, some (baseName q)⟩] =
      some (kD, LD, [⟨wdq, .movedTo, true, s.k.nextCookie, some (baseName q), q⟩]) := by
    rw [libBatch_cons, libRecord_to_lone_dir _ _ _ _ _ _ _ hq1 inv.cookies inv.isRec, hqb, haddeq]
    simp [libBatch_nil, kD, LD]
  have hz' : (z = none ∧ rrep = [] ∧ renameTail s.fs true q = []) ∨
      (∃ wd, z = some wd ∧ lookupW LD.pathForWd wd = some q ∧ renameTail s.fs true q = [mkEv .DirModifiedEvent q] ∧
        rrep = [⟨wd, .attrib, true, 0, none⟩, ⟨wd, .deleteSelf, false, 0, none⟩, ⟨wd, .ignored, false, 0, none⟩]) := by
    rcases hz with h | ⟨wd, h1, _, _, h4, h5, h6⟩
    · exact Or.inl h
    · refine Or.inr ⟨wd, h1, ?_, h5, h6⟩
      rw [i2 wd (inv0'.zlt wd h1)]; exact h4
  have hgs : gsOf [(⟨wdq, .movedTo, true, s.k.nextCookie, some (baseName q), q⟩ : LEv)] =
      [.one ⟨wdq, .movedTo, true, s.k.nextCookie, some (baseName q), q⟩] := by
    simp [gsOf, group, pairIn, Grouped.keep]
  have hcon := contract_rename s.fs s.full p q e ok
  apply rename_assemble s p q hs hc ok.hq2 hk' hl12 invD hz'
    (E12 := (if s.full then [mkEv .DirMovedEvent [] q] else [mkEv .DirCreatedEvent q]) ++ [dirMod q] ++ subCreated fsR q)
  · rw [hgs]; simp [movedOut]
  · rw [hgs]; simp [emitAll_cons, emitAll_nil, emit, dirMod, mkEv]
  · rw [hcon]; simp [hwp, hwq, hd, movedCls, createdCls, fsR]

end WD.Pipe
