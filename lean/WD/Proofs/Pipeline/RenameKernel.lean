/- what the kernel does on a rename, classified by the replaced entry -/
import WD.Proofs.Pipeline.Rename
set_option linter.unusedSimpArgs false
namespace WD.Pipe

variable {fs : FS} {k : Kern} {lib : Lib} {p q : P} {e : Ent}

theorem InvOn.bump {cov : Ent → Prop} {z : Option Nat} (inv : InvOn cov z fs k lib) (c : Nat) (hc : k.nextCookie ≤ c) :
    InvOn cov z fs { k with nextCookie := c } lib :=
  { wf := inv.wf, isRec := inv.isRec, kwd := inv.kwd, kino := inv.kino, klt := inv.klt, good := inv.good,
    cover := inv.cover, pfwDom := inv.pfwDom, zlt := inv.zlt, zdead := inv.zdead, wfpInv := inv.wfpInv,
    wfpNodup := inv.wfpNodup, pfwNodup := inv.pfwNodup,
    cookies := fun x hx => by have := inv.cookies x hx; simp only; omega }

def fromRecs (fs : FS) (k : Kern) (p : P) (isDir : Bool) : List NRec :=
  k.onEntry ((fs.find? (parentOf p)).map (·.ino)) .movedFrom isDir k.nextCookie (baseName p)
def toRecs (fs : FS) (k : Kern) (q : P) (isDir : Bool) : List NRec :=
  k.onEntry ((fs.find? (parentOf q)).map (·.ino)) .movedTo isDir k.nextCookie (baseName q)

theorem RenameOK.parent_p_ne_q (ok : RenameOK fs p q e) (hwf : fs.WF) : parentOf p ≠ q := by
  intro h
  have hem := FS.find?_some ok.he
  have := isUnder_of_parent (ne_nil_of_two_le ok.hp2) (Or.inl h)
  have h2 := ok.q_free hwf e hem.1 (by rw [hem.2]; exact ok.hne)
  rw [hem.2, this] at h2; cases h2

theorem RenameOK.parent_q_ne_q (ok : RenameOK fs p q e) : parentOf q ≠ q := by
  intro h; have := congrArg List.length h; rw [parentOf_length] at this; have := ok.hq2; omega

theorem onEntry_dropWatch_other (hwf : fs.WF) {old : Ent} (ho : fs.find? q = some old) {d : P} (hd : d ≠ q)
    (f : Flag) (b : Bool) (c : Nat) (n : String) :
    (k.dropWatch old.ino).onEntry ((fs.find? d).map (·.ino)) f b c n = k.onEntry ((fs.find? d).map (·.ino)) f b c n := by
  cases hf : fs.find? d with
  | none => simp [Kern.onEntry]
  | some x =>
    have hx := FS.find?_some hf
    have hom := FS.find?_some ho
    have : x.ino ≠ old.ino := by
      intro hi; have := hwf.ino_inj hx.1 hom.1 hi; subst this; exact hd (hx.2.symm.trans hom.2)
    simp [Kern.onEntry, wdOfIno_dropWatch, this]

theorem rename_kernel (inv : InvRec fs k lib) (ok : RenameOK fs p q e) :
    ∃ (z : Option Nat) (k0 : Kern) (rrep : List NRec),
      kernelOp fs k (.rename p q) = (fs.renamed p q, { k0 with nextCookie := k.nextCookie + 1 },
        fromRecs fs k p e.isDir ++ toRecs fs k q e.isDir ++ rrep) ∧
      InvOn (fun _ => True) z (fs.del q) k0 lib ∧ k0.nextCookie = k.nextCookie ∧
      ((z = none ∧ rrep = [] ∧ renameTail fs true q = []) ∨
       (∃ wd, z = some wd ∧ e.isDir = true ∧ watchedDir fs true (parentOf q) = true ∧
          lookupW lib.pathForWd wd = some q ∧ renameTail fs true q = [mkEv .DirModifiedEvent q] ∧
          rrep = [⟨wd, .attrib, true, 0, none⟩, ⟨wd, .deleteSelf, false, 0, none⟩, ⟨wd, .ignored, false, 0, none⟩])) := by
  have hwf := inv.wf
  have hmap : ∀ l : List Ent, l.map (fun x => if x.path == p then { x with path := q }
      else if isUnder p x.path then { x with path := q ++ x.path.drop p.length } else x) = l.map (rwEnt p q) := by
    intro l; apply List.map_congr_left; intro x _; exact rwEnt_eq_model p q x
  cases hq : fs.find? q with
  | none =>
    refine ⟨none, k, [], ?_, ?_, rfl, Or.inl ⟨rfl, rfl, by simp [renameTail, hq]⟩⟩
    · simp only [kernelOp, ok.he, hq, hmap, fromRecs, toRecs, List.append_nil]
      simp [FS.renamed, FS.del_missing hq]
    · rw [FS.del_missing hq]; exact inv
  | some old =>
    have hom := FS.find?_some hq
    have hold := ok.hold old hq
    have hleaf : ∀ x ∈ fs.ents, parentOf x.path ≠ q ∨ x.path.length < 2 := by
      intro x hx
      by_cases hl : x.path.length < 2
      · exact Or.inr hl
      · left; intro hpar
        have hnn : x.path ≠ [] := by intro h; rw [h] at hl; simp at hl
        have hu := isUnder_of_parent hnn (Or.inl hpar)
        have := ok.q_free hwf x hx (fun h => by rw [h, isUnder_irrefl] at hu; cases hu)
        rw [hu] at this; cases this
    have hwf' : (fs.del q).WF := hwf.del ok.hq2 hleaf
    have hfs0 : ({ fs with ents := fs.ents.filter (fun x => x.path != q) } : FS) = fs.del q := rfl
    cases ht : inTreeDir old with
    | true =>
      have hd : old.isDir = true := (inTreeDir_iff.mp ht).1
      obtain ⟨wd, h1, hw, h2, h3⟩ := inv.watched hom.1 ht trivial
      rw [hom.2] at h2 h3
      have hwq : watchedDir fs true q = true := watchedDir_rec_iff.mpr ⟨old, hq, ht⟩
      have hwpq : watchedDir fs true (parentOf q) = true := by
        have hu : isUnder ["W"] q = true := by
          rcases (inTreeDir_iff.mp ht).2 with h | h
          · rw [hom.2] at h; rw [h] at ok; have := ok.hq2; simp at this
          · rw [hom.2] at h; exact h
        simp only [watchedDir, ok.hqpar, Bool.true_and, Bool.or_eq_true, beq_iff_eq]
        rcases isUnder_parent hu with h | h
        · exact Or.inl h
        · exact Or.inr h
      refine ⟨some wd, k.dropWatch old.ino, [⟨wd, .attrib, true, 0, none⟩, ⟨wd, .deleteSelf, false, 0, none⟩, ⟨wd, .ignored, false, 0, none⟩],
        ?_, ?_, rfl, Or.inr ⟨wd, rfl, by rw [← hold.1, hd], hwpq, h2, by simp [renameTail, hq, hd, hwq], rfl⟩⟩
      · simp only [kernelOp, ok.he, hq, hd, if_true, onSelf_some h1, hmap, fromRecs, toRecs]
        rw [onEntry_dropWatch_other hwf hq (ok.parent_p_ne_q hwf), onEntry_dropWatch_other hwf hq ok.parent_q_ne_q]
        simp [FS.renamed, FS.del, Kern.dropWatch]
      · have := inv.dropWatch_zombie hom.1 hw (hom.2 ▸ hwf')
        rw [hom.2] at this; exact this
    | false =>
      have hun := inv.unwatched hom.1 ht
      have hwq : (old.isDir && watchedDir fs true q) = false := by
        cases hd : old.isDir with
        | false => rfl
        | true =>
          cases hw : watchedDir fs true q with
          | false => rfl
          | true =>
            obtain ⟨x, hx, hxt⟩ := watchedDir_rec_iff.mp hw
            rw [hq] at hx; cases hx; rw [ht] at hxt; cases hxt
      refine ⟨none, k, [], ?_, ?_, rfl, Or.inl ⟨rfl, rfl, by simp [renameTail, hq, hwq]⟩⟩
      · have hk0 : (if old.isDir then k.dropWatch old.ino else k) = k := by
          cases old.isDir <;> simp [dropWatch_unwatched hun]
        have hself : (if old.isDir then k.onSelf old.ino .attrib true ++ k.onSelf old.ino .deleteSelf false ++
            k.onSelf old.ino .ignored false else []) = [] := by simp [onSelf_none hun]
        simp only [kernelOp, ok.he, hq, hk0, hself, hmap, fromRecs, toRecs, List.append_nil]
        simp [FS.renamed, FS.del]
      · apply inv.fs_change hwf'
        intro x hx; rw [FS.mem_del]
        constructor
        · exact fun h => h.1
        · intro h; refine ⟨h, ?_⟩
          intro hp; have := hwf.path_inj h hom.1 (hp.trans hom.2.symm); subst this; rw [ht] at hx; cases hx

end WD.Pipe
