/- re-keying the two watch maps after a directory was renamed inside the tree -/
import WD.Proofs.Pipeline.RenameIn
set_option linter.unusedSimpArgs false
namespace WD.Pipe

def nk (ms src : P) (x : P × Nat) : P := src ++ x.1.drop ms.length

def rekeyP (ms src : P) (sub : List (P × Nat)) (wfp : List (P × Nat)) : List (P × Nat) :=
  sub.foldl (fun acc x => setP (acc.filter (fun y => y.1 != x.1)) (src ++ x.1.drop ms.length) x.2) wfp
def rekeyW (ms src : P) (sub : List (P × Nat)) (pfw : List (Nat × P)) : List (Nat × P) :=
  sub.foldl (fun acc x => setW acc x.2 (src ++ x.1.drop ms.length)) pfw

def rekeyLib (lib : Lib) (ms src : P) (mw : Nat) : Lib :=
  let wfpA := setP (lib.wdForPath.filter (fun x => x.1 != ms)) src mw
  let pfwA := setW lib.pathForWd mw src
  let sub := wfpA.filter (fun x => isUnder ms x.1)
  { lib with wdForPath := rekeyP ms src sub wfpA, pathForWd := rekeyW ms src sub pfwA }

/-- a MOVED_TO right after its MOVED_FROM, the source is a key of the path map: the directory and everything
    the library knows below it are re-keyed -/
theorem libRecord_to_paired_dir (fs : FS) (k : Kern) (lib : Lib) (wd : Nat) (d : Bool) (c : Nat) (n : String) (wp ms : P) (mw : Nat)
    (hw : lookupW lib.pathForWd wd = some wp) (hkey : lookupP lib.wdForPath ms = some mw) (hrec : lib.recursive = true)
    (hid : d = true → addTreeWatches fs k (rekeyLib (lib.remember c ms) ms (wp ++ [n]) mw) (wp ++ [n]) =
      (k, rekeyLib (lib.remember c ms) ms (wp ++ [n]) mw)) :
    libRecord fs k (lib.remember c ms) ⟨wd, .movedTo, d, c, some n⟩ =
      some (k, rekeyLib (lib.remember c ms) ms (wp ++ [n]) mw, [⟨wd, .movedTo, d, c, some n, wp ++ [n]⟩]) := by
  cases d with
  | false => simp [libRecord, Lib.remember, hw, hkey, hrec, rekeyLib, rekeyP, rekeyW]
  | true =>
    have h := hid rfl
    have e : libRecord fs k (lib.remember c ms) ⟨wd, .movedTo, true, c, some n⟩ =
        some ((addTreeWatches fs k (rekeyLib (lib.remember c ms) ms (wp ++ [n]) mw) (wp ++ [n])).1,
              (addTreeWatches fs k (rekeyLib (lib.remember c ms) ms (wp ++ [n]) mw) (wp ++ [n])).2,
              [⟨wd, .movedTo, true, c, some n, wp ++ [n]⟩]) := by
      simp [libRecord, Lib.remember, hw, hkey, hrec, rekeyLib, rekeyP, rekeyW]
    rw [e, h]

theorem rekeyP_nodup (ms src : P) (sub wfp : List (P × Nat)) (h : (wfp.map (·.1)).Nodup) :
    ((rekeyP ms src sub wfp).map (·.1)).Nodup := by
  unfold rekeyP
  induction sub generalizing wfp with
  | nil => exact h
  | cons x rest ih => exact ih _ (nodup_setP (nodup_keys_filter h _) _ _)

theorem rekeyW_nodup (ms src : P) (sub : List (P × Nat)) (pfw : List (Nat × P)) (h : (pfw.map (·.1)).Nodup) :
    ((rekeyW ms src sub pfw).map (·.1)).Nodup := by
  unfold rekeyW
  induction sub generalizing pfw with
  | nil => exact h
  | cons x rest ih => exact ih _ (nodup_setW h _ _)

/-- the path map after re-keying: a new key carries the descriptor of the old key it was made from, the old
    keys are gone, everything else is as it was -/
theorem rekeyP_lookup (ms src : P) (sub : List (P × Nat)) (wfp : List (P × Nat))
    (hk : (sub.map (·.1)).Nodup) (hinj : ∀ x ∈ sub, ∀ y ∈ sub, nk ms src x = nk ms src y → x.1 = y.1)
    (hsep : ∀ x ∈ sub, ∀ y ∈ sub, nk ms src x ≠ y.1) (y : P) :
    lookupP (rekeyP ms src sub wfp) y =
      match sub.find? (fun x => nk ms src x == y) with
      | some x => some x.2
      | none => if y ∈ sub.map (·.1) then none else lookupP wfp y := by
  unfold rekeyP
  induction sub generalizing wfp with
  | nil => simp
  | cons x rest ih =>
    simp only [List.map_cons, List.nodup_cons] at hk
    simp only [List.foldl_cons]
    rw [ih _ hk.2 (fun a ha b hb => hinj a (List.mem_cons_of_mem _ ha) b (List.mem_cons_of_mem _ hb))
      (fun a ha b hb => hsep a (List.mem_cons_of_mem _ ha) b (List.mem_cons_of_mem _ hb))]
    have hstep : ∀ y, lookupP (setP (wfp.filter (fun z => z.1 != x.1)) (src ++ x.1.drop ms.length) x.2) y =
        if y = nk ms src x then some x.2 else if y = x.1 then none else lookupP wfp y := by
      intro y; rw [lookupP_setP, lookupP_filter_ne]; rfl
    by_cases hxy : nk ms src x = y
    · -- `y` is the new key made from `x`
      have hnone : rest.find? (fun a => nk ms src a == y) = none := by
        rw [List.find?_eq_none]; intro a ha
        simp only [beq_iff_eq]
        intro hay
        have := hinj x (List.mem_cons_self ..) a (List.mem_cons_of_mem _ ha) (hxy.trans hay.symm)
        exact hk.1 (this ▸ List.mem_map.mpr ⟨a, ha, rfl⟩)
      have hnot : y ∉ rest.map (·.1) := by
        intro hm
        obtain ⟨b, hb, hby⟩ := List.mem_map.mp hm
        exact hsep x (List.mem_cons_self ..) b (List.mem_cons_of_mem _ hb) (hxy.trans hby.symm)
      simp [List.find?_cons, hxy, hnone, hnot, hstep]
    · have hb : (nk ms src x == y) = false := by simp [hxy]
      simp only [List.find?_cons, hb]
      cases hf : rest.find? (fun a => nk ms src a == y) with
      | some a => rfl
      | none =>
        simp only [List.mem_cons]
        by_cases hm : y ∈ rest.map (·.1)
        · simp [hm]
        · have hy : y ≠ nk ms src x := fun h => hxy h.symm
          by_cases hyx : y = x.1
          · subst hyx; simp [hm, hstep, hy]
          · simp [hm, hstep, hy, hyx]

theorem rekeyW_lookup (ms src : P) (sub : List (P × Nat)) (pfw : List (Nat × P)) (hk : (sub.map (·.2)).Nodup) (w : Nat) :
    lookupW (rekeyW ms src sub pfw) w =
      match sub.find? (fun x => x.2 == w) with
      | some x => some (nk ms src x)
      | none => lookupW pfw w := by
  unfold rekeyW
  induction sub generalizing pfw with
  | nil => simp
  | cons x rest ih =>
    simp only [List.map_cons, List.nodup_cons] at hk
    simp only [List.foldl_cons]
    rw [ih _ hk.2]
    by_cases hxw : x.2 = w
    · have hnone : rest.find? (fun a => a.2 == w) = none := by
        rw [List.find?_eq_none]; intro a ha
        simp only [beq_iff_eq]
        intro haw; exact hk.1 ((hxw.trans haw.symm) ▸ List.mem_map.mpr ⟨a, ha, rfl⟩)
      simp [List.find?_cons, hxw, hnone, lookupW_setW, nk]
    · have hb : (x.2 == w) = false := by simp [hxw]
      simp only [List.find?_cons, hb]
      cases hf : rest.find? (fun a => a.2 == w) with
      | some a => rfl
      | none =>
        have : w ≠ x.2 := fun h => hxw h.symm
        simp [lookupW_setW, this]

end WD.Pipe
