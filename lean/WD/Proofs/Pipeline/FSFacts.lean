/- file-system and kernel-watch facts -/
import WD.Model.Pipeline
import WD.Spec.PipelineSpec
import WD.Proofs.Pipeline.Assoc
import WD.Proofs.Pipeline.Paths
set_option linter.unusedSimpArgs false
namespace WD.Pipe

/- ---------------- find? ---------------- -/

theorem FS.find?_some {fs : FS} {p : P} {e : Ent} (h : fs.find? p = some e) : e ∈ fs.ents ∧ e.path = p := by
  unfold FS.find? at h
  have h1 := List.mem_of_find?_eq_some h
  have h2 := List.find?_some h
  exact ⟨h1, by simpa using h2⟩

theorem FS.find?_none {fs : FS} {p : P} : fs.find? p = none ↔ ∀ e ∈ fs.ents, e.path ≠ p := by
  unfold FS.find?
  simp [List.find?_eq_none]

theorem find?_of_mem_aux (l : List Ent) (hn : (l.map Ent.path).Nodup) {e : Ent} (he : e ∈ l) :
    l.find? (fun x => x.path == e.path) = some e := by
  induction l with
  | nil => simp at he
  | cons x l ih =>
    simp only [List.map_cons, List.nodup_cons] at hn
    rcases List.mem_cons.mp he with h | h
    · subst h; simp
    · have : x.path ≠ e.path := by
        intro hx; apply hn.1; rw [hx]; exact List.mem_map.mpr ⟨e, h, rfl⟩
      simp [List.find?_cons, this, ih hn.2 h]

theorem FS.find?_of_mem {fs : FS} (hn : (fs.ents.map Ent.path).Nodup) {e : Ent} (he : e ∈ fs.ents) :
    fs.find? e.path = some e := find?_of_mem_aux fs.ents hn he

theorem FS.isDir_iff {fs : FS} {p : P} : fs.isDir p = true ↔ ∃ e, fs.find? p = some e ∧ e.isDir = true := by
  unfold FS.isDir
  cases h : fs.find? p <;> simp

theorem FS.exists_iff {fs : FS} {p : P} : fs.exists p = true ↔ ∃ e, fs.find? p = some e := by
  unfold FS.exists; exact Option.isSome_iff_exists

theorem FS.isFile_iff {fs : FS} {p : P} : fs.isFile p = true ↔ ∃ e, fs.find? p = some e ∧ e.isDir = false := by
  unfold FS.isFile
  cases h : fs.find? p <;> simp

/- ---------------- WF accessors ---------------- -/

theorem FS.WF.paths {fs : FS} (h : fs.WF) : (fs.ents.map Ent.path).Nodup := h.1
theorem FS.WF.inos {fs : FS} (h : fs.WF) : (fs.ents.map Ent.ino).Nodup := h.2.1
theorem FS.WF.inoPos {fs : FS} (h : fs.WF) {e : Ent} (he : e ∈ fs.ents) : 0 < e.ino := (h.2.2.1 e he).1
theorem FS.WF.inoLt {fs : FS} (h : fs.WF) {e : Ent} (he : e ∈ fs.ents) : e.ino < fs.nextIno := (h.2.2.1 e he).2
theorem FS.WF.rootW {fs : FS} (h : fs.WF) : fs.isDir ["W"] = true := h.2.2.2.1
theorem FS.WF.rootO {fs : FS} (h : fs.WF) : fs.isDir ["O"] = true := h.2.2.2.2.1
theorem FS.WF.parent {fs : FS} (h : fs.WF) {e : Ent} (he : e ∈ fs.ents) :
    e.path = ["W"] ∨ e.path = ["O"] ∨ (2 ≤ e.path.length ∧ fs.isDir (parentOf e.path) = true) := h.2.2.2.2.2 e he

theorem FS.WF.find_mem {fs : FS} (h : fs.WF) {e : Ent} (he : e ∈ fs.ents) : fs.find? e.path = some e :=
  FS.find?_of_mem h.paths he

/-- two entries with the same inode are the same entry -/
theorem FS.WF.ino_inj {fs : FS} (h : fs.WF) {e e' : Ent} (he : e ∈ fs.ents) (he' : e' ∈ fs.ents) (hi : e.ino = e'.ino) : e = e' :=
  inj_of_nodup_map h.inos he he' hi

theorem FS.WF.path_inj {fs : FS} (h : fs.WF) {e e' : Ent} (he : e ∈ fs.ents) (he' : e' ∈ fs.ents) (hi : e.path = e'.path) : e = e' :=
  inj_of_nodup_map h.paths he he' hi

theorem FS.WF.path_ne_nil {fs : FS} (h : fs.WF) {e : Ent} (he : e ∈ fs.ents) : e.path ≠ [] := by
  rcases h.parent he with h1 | h1 | h1
  · simp [h1]
  · simp [h1]
  · exact ne_nil_of_two_le h1.1

/- ---------------- kernel watch lookup ---------------- -/

theorem wdOfIno_some {k : Kern} {ino wd : Nat} (h : k.wdOfIno ino = some wd) : (wd, ino) ∈ k.watches := by
  unfold Kern.wdOfIno at h
  cases hf : k.watches.find? (fun w => w.2 == ino) with
  | none => simp [hf] at h
  | some w =>
    simp [hf] at h
    have h1 := List.mem_of_find?_eq_some hf
    have h2 := List.find?_some hf
    simp at h2
    have : w = (wd, ino) := by cases w; simp_all
    rw [← this]; exact h1

theorem wdOfIno_none {k : Kern} {ino : Nat} : k.wdOfIno ino = none ↔ ∀ w ∈ k.watches, w.2 ≠ ino := by
  unfold Kern.wdOfIno
  simp [List.find?_eq_none]

theorem wdOfIno_of_mem_aux (l : List (Nat × Nat)) (hn : (l.map (·.2)).Nodup) {w : Nat × Nat} (hw : w ∈ l) :
    l.find? (fun x => x.2 == w.2) = some w := by
  induction l with
  | nil => simp at hw
  | cons x l ih =>
    simp only [List.map_cons, List.nodup_cons] at hn
    rcases List.mem_cons.mp hw with h | h
    · subst h; simp
    · have : x.2 ≠ w.2 := by
        intro hx; apply hn.1; rw [hx]; exact List.mem_map.mpr ⟨w, h, rfl⟩
      simp [List.find?_cons, this, ih hn.2 h]

theorem wdOfIno_of_mem {k : Kern} (hn : (k.watches.map (·.2)).Nodup) {wd ino : Nat} (h : (wd, ino) ∈ k.watches) :
    k.wdOfIno ino = some wd := by
  unfold Kern.wdOfIno
  have := wdOfIno_of_mem_aux k.watches hn h
  simp at this
  simp [this]

theorem onEntry_some {k : Kern} {ino wd : Nat} (h : k.wdOfIno ino = some wd) (f : Flag) (d : Bool) (c : Nat) (n : String) :
    k.onEntry (some ino) f d c n = [⟨wd, f, d, c, some n⟩] := by simp [Kern.onEntry, h]
theorem onEntry_none {k : Kern} {ino : Nat} (h : k.wdOfIno ino = none) (f : Flag) (d : Bool) (c : Nat) (n : String) :
    k.onEntry (some ino) f d c n = [] := by simp [Kern.onEntry, h]
theorem onEntry_nodir {k : Kern} (f : Flag) (d : Bool) (c : Nat) (n : String) :
    k.onEntry none f d c n = [] := by simp [Kern.onEntry]
theorem onSelf_some {k : Kern} {ino wd : Nat} (h : k.wdOfIno ino = some wd) (f : Flag) (d : Bool) :
    k.onSelf ino f d = [⟨wd, f, d, 0, none⟩] := by simp [Kern.onSelf, h]
theorem onSelf_none {k : Kern} {ino : Nat} (h : k.wdOfIno ino = none) (f : Flag) (d : Bool) :
    k.onSelf ino f d = [] := by simp [Kern.onSelf, h]

end WD.Pipe
