/- "renamed twice in a row": a directory tree of the watched tree renamed to a free name and, before the reader wakes up,
   renamed again to another free name - `rename a b; rename b c` read as one batch (recursive watch) -/
import WD.Proofs.Pipeline.BurstMoveIn
import WD.Proofs.Pipeline.AddId
import WD.Proofs.Pipeline.RenameMove
set_option linter.unusedSimpArgs false
namespace WD.Pipe

/-- an entry that the move leaves alone is found where it was -/
theorem find_renamed_fixed {fs : FS} {a b : P} {e : Ent} (hwf : fs.WF) (ok : RenameOK fs a b e) {x : Ent} (hx : x ∈ fs.ents)
    (h1 : x.path ≠ a) (h2 : isUnder a x.path = false) (h3 : x.path ≠ b) : (fs.renamed a b).find? x.path = some x :=
  (ok.wf hwf).find_mem (FS.mem_renamed.mpr ⟨x, hx, h3, (rwEnt_fixed h1 h2).symm⟩)

theorem isDir_renamed_fixed {fs : FS} {a b : P} {e : Ent} (hwf : fs.WF) (ok : RenameOK fs a b e) {d : P}
    (hd : fs.isDir d = true) (h1 : d ≠ a) (h2 : isUnder a d = false) (h3 : d ≠ b) :
    (fs.renamed a b).find? d = fs.find? d ∧ (fs.renamed a b).isDir d = true := by
  obtain ⟨x, hx, hxd⟩ := FS.isDir_iff.mp hd
  obtain ⟨hxm, hxp⟩ := FS.find?_some hx
  have := find_renamed_fixed hwf ok hxm (by rw [hxp]; exact h1) (by rw [hxp]; exact h2) (by rw [hxp]; exact h3)
  rw [hxp] at this
  exact ⟨by rw [this, hx], FS.isDir_iff.mpr ⟨x, this, hxd⟩⟩

theorem watchedDir_renamed_fixed {fs : FS} {a b : P} {e : Ent} (hwf : fs.WF) (ok : RenameOK fs a b e) {d : P}
    (hd : watchedDir fs true d = true) (h1 : d ≠ a) (h2 : isUnder a d = false) (h3 : d ≠ b) :
    watchedDir (fs.renamed a b) true d = true := by
  unfold watchedDir at hd ⊢
  simp only [Bool.and_eq_true] at hd ⊢
  exact ⟨(isDir_renamed_fixed hwf ok hd.1 h1 h2 h3).2, hd.2⟩

/-- the parent of a name that does not lie inside `a` is not `a` and not inside `a` -/
theorem parent_outside {a x : P} (hx : x ≠ []) (h : isUnder a x = false) : parentOf x ≠ a ∧ isUnder a (parentOf x) = false := by
  constructor
  · intro hp; rw [isUnder_of_parent hx (Or.inl hp)] at h; cases h
  · cases hu : isUnder a (parentOf x) with
    | false => rfl
    | true => rw [isUnder_of_parent hx (Or.inr hu)] at h; cases h

/-- the events of the burst: the first move has nothing to announce below it (nothing lies at `b` any more) -/
def chainEvents (F : FS) (a b c : P) : List PEv :=
  [mkEv .DirMovedEvent a b, dirMod a, dirMod b] ++ ([mkEv .DirMovedEvent b c, dirMod b, dirMod c] ++ subMoved F b c)

theorem burst_rename_chain_state (s : Sys) (a b c : P) (e : Ent) (inv : InvRec s.fs s.k s.lib) (hs : s.stopped = false)
    (hc : s.crashed = false) (ok1 : RenameOK s.fs a b e) (ok2 : RenameOK s.fs a c e) (hd : e.isDir = true)
    (hbf : s.fs.find? b = none) (hcf : s.fs.find? c = none) (hne : b ≠ c) (hnu : isUnder b c = false)
    (hwa : watchedDir s.fs true (parentOf a) = true) (hwb : watchedDir s.fs true (parentOf b) = true)
    (hwc : watchedDir s.fs true (parentOf c) = true) :
    (s.burst [.rename a b, .rename b c]).2 = chainEvents (s.fs.renamed a c) a b c ∧
    (s.burst [.rename a b, .rename b c]).1.fs = s.fs.renamed a c ∧
    (s.burst [.rename a b, .rename b c]).1.stopped = false ∧ (s.burst [.rename a b, .rename b c]).1.crashed = false ∧
    InvRec (s.burst [.rename a b, .rename b c]).1.fs (s.burst [.rename a b, .rename b c]).1.k
      (s.burst [.rename a b, .rename b c]).1.lib := by
  have hwf := inv.wf
  have hwf1 := ok1.wf hwf
  have hem := FS.find?_some ok1.he
  have han := ne_nil_of_two_le ok1.hp2
  have hbn := ne_nil_of_two_le ok1.hq2
  have hcn := ne_nil_of_two_le ok2.hq2
  have hpba := snoc_parent_base han
  have hpbb := snoc_parent_base hbn
  have hpbc := snoc_parent_base hcn
  have hmap : ∀ (x y : P) (l : List Ent), l.map (fun z => if z.path == x then { z with path := y }
      else if isUnder x z.path then { z with path := y ++ z.path.drop x.length } else z) = l.map (rwEnt x y) := by
    intro x y l; apply List.map_congr_left; intro z _; exact rwEnt_eq_model x y z
  -- the three parents: watched, and left alone by the first move
  obtain ⟨wdA, hA1, hrA⟩ : ∃ wd, lookupW s.lib.pathForWd wd = some (parentOf a) ∧ ∀ f d c',
      s.k.onEntry ((s.fs.find? (parentOf a)).map (·.ino)) f d c' (baseName a) = [⟨wd, f, d, c', some (baseName a)⟩] := by
    rcases inv.parent_recs a with ⟨_, wd, h1, _, h3⟩ | ⟨hw, _⟩
    · exact ⟨wd, h1, h3⟩
    · rw [hwa] at hw; cases hw
  obtain ⟨wdB, hB1, hrB⟩ : ∃ wd, lookupW s.lib.pathForWd wd = some (parentOf b) ∧ ∀ f d c',
      s.k.onEntry ((s.fs.find? (parentOf b)).map (·.ino)) f d c' (baseName b) = [⟨wd, f, d, c', some (baseName b)⟩] := by
    rcases inv.parent_recs b with ⟨_, wd, h1, _, h3⟩ | ⟨hw, _⟩
    · exact ⟨wd, h1, h3⟩
    · rw [hwb] at hw; cases hw
  obtain ⟨wdC, hC1, hrC⟩ : ∃ wd, lookupW s.lib.pathForWd wd = some (parentOf c) ∧ ∀ f d c',
      s.k.onEntry ((s.fs.find? (parentOf c)).map (·.ino)) f d c' (baseName c) = [⟨wd, f, d, c', some (baseName c)⟩] := by
    rcases inv.parent_recs c with ⟨_, wd, h1, _, h3⟩ | ⟨hw, _⟩
    · exact ⟨wd, h1, h3⟩
    · rw [hwc] at hw; cases hw
  have hpbo := parent_outside hbn ok1.hnu
  have hpco := parent_outside hcn ok2.hnu
  have hpb_ne_b : parentOf b ≠ b := by
    intro h; have := parentOf_length b; rw [h] at this; have := ok1.hq2; omega
  have hpc_ne_b : parentOf c ≠ b := by
    intro h; have hh := ok2.hqpar; rw [h] at hh
    obtain ⟨x, hx, _⟩ := FS.isDir_iff.mp hh; rw [hbf] at hx; cases hx
  have hfB := (isDir_renamed_fixed hwf ok1 ok1.hqpar hpbo.1 hpbo.2 hpb_ne_b).1
  have hfC := (isDir_renamed_fixed hwf ok1 ok2.hqpar hpco.1 hpco.2 hpc_ne_b).1
  -- the kernel side
  have hk1 : kernelOp s.fs s.k (.rename a b) = (s.fs.renamed a b, { s.k with nextCookie := s.k.nextCookie + 1 },
      [⟨wdA, .movedFrom, true, s.k.nextCookie, some (baseName a)⟩, ⟨wdB, .movedTo, true, s.k.nextCookie, some (baseName b)⟩]) := by
    simp only [kernelOp, ok1.he, hbf, hmap, hrA, hrB, hd, List.append_nil]
    simp [FS.renamed, FS.del_missing hbf]
  have hfind1b : (s.fs.renamed a b).find? b = some (rwEnt a b e) := by
    have : rwEnt a b e ∈ (s.fs.renamed a b).ents := FS.mem_renamed.mpr ⟨e, hem.1, by rw [hem.2]; exact ok1.hne, rfl⟩
    have h2 := hwf1.find_mem this
    simpa [rwEnt, hem.2, rwPath_at] using h2
  have hfind1c : (s.fs.renamed a b).find? c = none := find_renamed_none hcf (Ne.symm hne) hnu
  have hisd : (rwEnt a b e).isDir = true := by simpa [rwEnt] using hd
  have hk2 : kernelOp (s.fs.renamed a b) { s.k with nextCookie := s.k.nextCookie + 1 } (.rename b c) =
      (s.fs.renamed a c, { s.k with nextCookie := s.k.nextCookie + 2 },
       [⟨wdB, .movedFrom, true, s.k.nextCookie + 1, some (baseName b)⟩, ⟨wdC, .movedTo, true, s.k.nextCookie + 1, some (baseName c)⟩]) := by
    simp only [kernelOp, hfind1b, hfind1c, hmap, hfB, hfC, onEntry_bump, hrB, hrC, List.append_nil]
    have h2 : (s.fs.renamed a b).renamed b c =
        { s.fs.renamed a b with ents := (s.fs.renamed a b).ents.map (rwEnt b c) } := by
      show ({ s.fs.renamed a b with ents := ((s.fs.renamed a b).del c).ents.map (rwEnt b c) } : FS) = _
      rw [FS.del_missing hfind1c]
    rw [← renamed_renamed hwf hbf hbn hcf hne hnu, h2]
    simp [hisd]
  have hk : kernelOps s.fs s.k [.rename a b, .rename b c] =
      (s.fs.renamed a c, { s.k with nextCookie := s.k.nextCookie + 2 },
       [⟨wdA, .movedFrom, true, s.k.nextCookie, some (baseName a)⟩, ⟨wdB, .movedTo, true, s.k.nextCookie, some (baseName b)⟩,
        ⟨wdB, .movedFrom, true, s.k.nextCookie + 1, some (baseName b)⟩, ⟨wdC, .movedTo, true, s.k.nextCookie + 1, some (baseName c)⟩]) := by
    simp [kernelOps, hk1, hk2]
  -- the library side: two re-keyings, neither of which looks at the file system
  have hte : inTreeDir e = true := by
    have := (ok1.moved_inTree hwf (x := e) (Or.inl hem.2)).1
    rw [this, hd, hwa]; rfl
  obtain ⟨mwa, _, _, _, hmwa⟩ := inv.watched hem.1 hte trivial
  rw [hem.2] at hmwa
  have inv1 : InvOn (fun _ => True) none (s.fs.del b) { s.k with nextCookie := s.k.nextCookie + 2 } (s.lib.remember s.k.nextCookie a) := by
    rw [FS.del_missing hbf]
    exact (inv.bump (s.k.nextCookie + 2) (by omega)).remember _ _ (by simp)
  obtain ⟨inv2, _⟩ := inv_after_move inv1 hwf ok1 hd hwa hwb (mw := mwa) hmwa
  -- the state after the first pair, as an invariant over the intermediate file system
  have hwb1 : watchedDir (s.fs.renamed a b) true (parentOf b) = true :=
    watchedDir_renamed_fixed hwf ok1 hwb hpbo.1 hpbo.2 hpb_ne_b
  have hwc1 : watchedDir (s.fs.renamed a b) true (parentOf c) = true :=
    watchedDir_renamed_fixed hwf ok1 hwc hpco.1 hpco.2 hpc_ne_b
  have hB2 : lookupW (rekeyLib (s.lib.remember s.k.nextCookie a) a b mwa).pathForWd wdB = some (parentOf b) := by
    rcases InvRec.parent_recs inv2 b with ⟨_, wd, h1, _, h3⟩ | ⟨hw, _⟩
    · have := h3 .movedFrom true 0
      rw [hfB, onEntry_bump, hrB] at this
      simp only [List.cons.injEq, NRec.mk.injEq, and_true, true_and] at this
      rw [this]; exact h1
    · rw [hwb1] at hw; cases hw
  have hC2 : lookupW (rekeyLib (s.lib.remember s.k.nextCookie a) a b mwa).pathForWd wdC = some (parentOf c) := by
    rcases InvRec.parent_recs inv2 c with ⟨_, wd, h1, _, h3⟩ | ⟨hw, _⟩
    · have := h3 .movedFrom true 0
      rw [hfC, onEntry_bump, hrC] at this
      simp only [List.cons.injEq, NRec.mk.injEq, and_true, true_and] at this
      rw [this]; exact h1
    · rw [hwc1] at hw; cases hw
  have hte1 : inTreeDir (rwEnt a b e) = true := by
    have := (ok1.moved_inTree hwf (x := e) (Or.inl hem.2)).2
    rw [this, hd, hwb]; rfl
  obtain ⟨mwb, _, _, _, hmwb⟩ := inv2.watched (FS.find?_some hfind1b).1 hte1 trivial
  rw [(FS.find?_some hfind1b).2] at hmwb
  have ok2' : RenameOK (s.fs.renamed a b) b c (rwEnt a b e) :=
    ⟨ok1.hq2, ok2.hq2, hfind1b, (isDir_renamed_fixed hwf ok1 ok2.hqpar hpco.1 hpco.2 hpc_ne_b).2, hne, hnu,
     fun old ho => by rw [hfind1c] at ho; cases ho⟩
  have inv3 : InvOn (fun _ => True) none ((s.fs.renamed a b).del c) { s.k with nextCookie := s.k.nextCookie + 2 }
      ((rekeyLib (s.lib.remember s.k.nextCookie a) a b mwa).remember (s.k.nextCookie + 1) b) := by
    rw [FS.del_missing hfind1c]
    exact inv2.remember _ _ (by simp)
  obtain ⟨inv4, _⟩ := inv_after_move inv3 hwf1 ok2' hisd hwb1 hwc1 (mw := mwb) hmwb
  rw [renamed_renamed hwf hbf hbn hcf hne hnu] at inv4
  -- the follow-up `_add_dir_watch` of the two re-keyings (D23): `b` is gone by the time the batch is read, `c` is covered
  have hbn0 : b ≠ [] := ne_nil_of_two_le ok1.hq2
  have hnucb : isUnder c b = false := fresh_not_above hwf hcf (ne_nil_of_two_le ok2.hq2) ok1.hqpar
  have hFb : (s.fs.renamed a c).find? b = none := find_renamed_none hbf hne hnucb
  have hFdb : (s.fs.renamed a c).descendants b = [] := by
    refine desc_renamed_nil hwf hbf hbn0 hnu ?_
    intro r hr hrn
    rcases prefix_comparable hr (isUnder_append c hrn) with h | h | h
    · exact hne h
    · rw [hnu] at h; cases h
    · rw [hnucb] at h; cases h
  have hidB : addTreeWatches (s.fs.renamed a c) { s.k with nextCookie := s.k.nextCookie + 2 }
      (rekeyLib (s.lib.remember s.k.nextCookie a) a b mwa) b =
      ({ s.k with nextCookie := s.k.nextCookie + 2 }, rekeyLib (s.lib.remember s.k.nextCookie a) a b mwa) :=
    addTreeWatches_nothing _ _ _ _ hFb hFdb
  have hcW : isUnder ["W"] c = true := by
    have hc0 := ne_nil_of_two_le ok2.hq2
    have hwc' := hwc
    unfold watchedDir at hwc'
    simp only [Bool.and_eq_true, Bool.or_eq_true, beq_iff_eq, Bool.true_and] at hwc'
    exact isUnder_of_parent hc0 hwc'.2
  have hwfC : (s.fs.renamed a c).WF := ok2.wf hwf
  have hfindC : (s.fs.renamed a c).find? c = some (rwEnt a c e) := by
    have : rwEnt a c e ∈ (s.fs.renamed a c).ents := FS.mem_renamed.mpr ⟨e, hem.1, by rw [hem.2]; exact ok2.hne, rfl⟩
    have h2 := hwfC.find_mem this
    simpa [rwEnt, hem.2, rwPath_at] using h2
  have hidC : addTreeWatches (s.fs.renamed a c) { s.k with nextCookie := s.k.nextCookie + 2 }
      (rekeyLib ((rekeyLib (s.lib.remember s.k.nextCookie a) a b mwa).remember (s.k.nextCookie + 1) b) b c mwb) c =
      ({ s.k with nextCookie := s.k.nextCookie + 2 },
       rekeyLib ((rekeyLib (s.lib.remember s.k.nextCookie a) a b mwa).remember (s.k.nextCookie + 1) b) b c mwb) := by
    apply addTreeWatches_id inv4 c
    intro y hy
    rcases List.mem_append.mp hy with h | h
    · rw [hfindC] at h; simp at h; subst h
      refine ⟨(FS.find?_some hfindC).1, ?_, trivial⟩
      simp [inTreeDir, rwEnt, hem.2, rwPath_at, hd, hcW]
    · obtain ⟨h1, h2⟩ := List.mem_filter.mp h
      have hy' := List.mem_filter.mp h1
      refine ⟨hy'.1, ?_, trivial⟩
      have hu : isUnder c y.path = true := by simpa using hy'.2
      simp [inTreeDir, h2, isUnder_trans hcW hu]
  have hl : libBatch (s.fs.renamed a c) { s.k with nextCookie := s.k.nextCookie + 2 } s.lib
      [⟨wdA, .movedFrom, true, s.k.nextCookie, some (baseName a)⟩, ⟨wdB, .movedTo, true, s.k.nextCookie, some (baseName b)⟩,
       ⟨wdB, .movedFrom, true, s.k.nextCookie + 1, some (baseName b)⟩, ⟨wdC, .movedTo, true, s.k.nextCookie + 1, some (baseName c)⟩] =
      some ({ s.k with nextCookie := s.k.nextCookie + 2 },
            rekeyLib ((rekeyLib (s.lib.remember s.k.nextCookie a) a b mwa).remember (s.k.nextCookie + 1) b) b c mwb,
            [⟨wdA, .movedFrom, true, s.k.nextCookie, some (baseName a), a⟩, ⟨wdB, .movedTo, true, s.k.nextCookie, some (baseName b), b⟩,
             ⟨wdB, .movedFrom, true, s.k.nextCookie + 1, some (baseName b), b⟩, ⟨wdC, .movedTo, true, s.k.nextCookie + 1, some (baseName c), c⟩]) := by
    rw [libBatch_cons, libRecord_from _ _ _ _ _ _ _ _ hA1, hpba]
    simp only
    rw [libBatch_cons, libRecord_to_paired_dir _ _ _ _ _ _ _ _ _ _ hB1 hmwa inv.isRec (fun _ => by rw [hpbb]; exact hidB), hpbb]
    simp only
    rw [libBatch_cons, libRecord_from _ _ _ _ _ _ _ _ hB2, hpbb]
    simp only
    rw [libBatch_cons, libRecord_to_paired_dir _ _ _ _ _ _ _ _ _ _ hC2 hmwb inv2.isRec (fun _ => by rw [hpbc]; exact hidC), hpbc]
    simp [libBatch_nil]
  -- grouping and emission
  have hgs : gsOf [(⟨wdA, .movedFrom, true, s.k.nextCookie, some (baseName a), a⟩ : LEv), ⟨wdB, .movedTo, true, s.k.nextCookie, some (baseName b), b⟩,
      ⟨wdB, .movedFrom, true, s.k.nextCookie + 1, some (baseName b), b⟩, ⟨wdC, .movedTo, true, s.k.nextCookie + 1, some (baseName c), c⟩] =
      [.two ⟨wdA, .movedFrom, true, s.k.nextCookie, some (baseName a), a⟩ ⟨wdB, .movedTo, true, s.k.nextCookie, some (baseName b), b⟩,
       .two ⟨wdB, .movedFrom, true, s.k.nextCookie + 1, some (baseName b), b⟩ ⟨wdC, .movedTo, true, s.k.nextCookie + 1, some (baseName c), c⟩] := by
    simp [gsOf, group, pairIn, Grouped.keep]
  have hnucb : isUnder c b = false := fresh_not_above hwf hcf hcn ok1.hqpar
  have hFdb : (s.fs.renamed a c).descendants b = [] := by
    refine desc_renamed_nil hwf hbf hbn hnu ?_
    intro r hr hrn
    rcases prefix_comparable hr (isUnder_append c hrn) with h | h | h
    · exact hne h
    · rw [hnu] at h; cases h
    · rw [hnucb] at h; cases h
  have hsubm : subMoved (s.fs.renamed a c) a b = [] := by simp [subMoved, hFdb]
  have hrec4 : (rekeyLib ((rekeyLib (s.lib.remember s.k.nextCookie a) a b mwa).remember (s.k.nextCookie + 1) b) b c mwb).recursive = true :=
    inv4.isRec
  have hem' : emitAll (s.fs.renamed a c)
      (rekeyLib ((rekeyLib (s.lib.remember s.k.nextCookie a) a b mwa).remember (s.k.nextCookie + 1) b) b c mwb).recursive s.full
      [.two ⟨wdA, .movedFrom, true, s.k.nextCookie, some (baseName a), a⟩ ⟨wdB, .movedTo, true, s.k.nextCookie, some (baseName b), b⟩,
       .two ⟨wdB, .movedFrom, true, s.k.nextCookie + 1, some (baseName b), b⟩ ⟨wdC, .movedTo, true, s.k.nextCookie + 1, some (baseName c), c⟩] =
      (chainEvents (s.fs.renamed a c) a b c, false) := by
    rw [hrec4]
    simp [emitAll_cons, emitAll_nil, emit, hsubm, dirMod, mkEv, chainEvents]
  have hmo : movedOut [Grouped.two (⟨wdA, .movedFrom, true, s.k.nextCookie, some (baseName a), a⟩ : LEv) ⟨wdB, .movedTo, true, s.k.nextCookie, some (baseName b), b⟩,
      .two ⟨wdB, .movedFrom, true, s.k.nextCookie + 1, some (baseName b), b⟩ ⟨wdC, .movedTo, true, s.k.nextCookie + 1, some (baseName c), c⟩] = [] := by
    simp [movedOut]
  have hburst : s.burst [.rename a b, .rename b c] =
      ({ s with fs := s.fs.renamed a c, k := { s.k with nextCookie := s.k.nextCookie + 2 },
                lib := rekeyLib ((rekeyLib (s.lib.remember s.k.nextCookie a) a b mwa).remember (s.k.nextCookie + 1) b) b c mwb,
                stopped := false },
       chainEvents (s.fs.renamed a c) a b c) := by
    unfold Sys.burst
    simp only [hk, hs, hc, Bool.or_self, Bool.false_eq_true, if_false, hl, hgs, hem', departed_nil _ hmo]
    simp [forgetAll_nil]
  rw [hburst]
  exact ⟨rfl, rfl, rfl, hc, inv4⟩

/-- replaying the chain's events on the tree before gives the tree after -/
theorem burst_rename_chain_replay (fs : FS) (a b c : P) (e : Ent) (hwf : fs.WF)
    (ok1 : RenameOK fs a b e) (ok2 : RenameOK fs a c e) (hd : e.isDir = true)
    (hbf : fs.find? b = none) (hcf : fs.find? c = none) (hne : b ≠ c) (hnu : isUnder b c = false)
    (hwc : watchedDir fs true (parentOf c) = true) :
    sameTree (replay (treeW fs) (chainEvents (fs.renamed a c) a b c)) (treeW (fs.renamed a c)) := by
  have han := ne_nil_of_two_le ok1.hp2
  have hbn := ne_nil_of_two_le ok1.hq2
  have hcn := ne_nil_of_two_le ok2.hq2
  have hwfF := ok2.wf hwf
  have hem := FS.find?_some ok2.he
  have hnucb : isUnder c b = false := fresh_not_above hwf hcf hcn ok1.hqpar
  have hFb : (fs.renamed a c).find? b = none := find_renamed_none hbf hne hnucb
  have hFdb : (fs.renamed a c).descendants b = [] := by
    refine desc_renamed_nil hwf hbf hbn hnu ?_
    intro r hr hrn
    rcases prefix_comparable hr (isUnder_append c hrn) with h | h | h
    · exact hne h
    · rw [hnu] at h; cases h
    · rw [hnucb] at h; cases h
  have hWc : isUnder ["W"] c = true := by
    unfold watchedDir at hwc
    simp only [Bool.and_eq_true, Bool.or_eq_true, beq_iff_eq, Bool.true_and] at hwc
    exact isUnder_of_parent hcn hwc.2
  have hT : ∀ x ∈ treeW (fs.renamed a c), ∀ y ∈ treeW (fs.renamed a c), x.1 = y.1 → x = y := by
    intro x hx y hy hxy
    obtain ⟨u, hu, hu1, hu2, _⟩ := mem_treeW.mp hx
    obtain ⟨v, hv, hv1, hv2, _⟩ := mem_treeW.mp hy
    have : u = v := hwfF.path_inj hu hv (by rw [hu1, hv1, hxy])
    subst this
    exact Prod.ext hxy (by rw [← hu2, ← hv2])
  have hTb : ∀ y ∈ treeW (fs.renamed a c), y.1 ≠ b ∧ isUnder b y.1 = false := by
    intro y hy
    obtain ⟨u, hu, hu1, _, _⟩ := mem_treeW.mp hy
    refine ⟨fun h => (FS.find?_none.mp hFb) u hu (hu1.trans h), ?_⟩
    cases hx : isUnder b y.1 with
    | false => rfl
    | true =>
      have : u ∈ (fs.renamed a c).descendants b := by
        unfold FS.descendants; exact List.mem_filter.mpr ⟨hu, by rw [hu1]; exact hx⟩
      rw [hFdb] at this; cases this
  -- the tree before holds nothing at or below the two free names
  have ht0b : ∀ y ∈ treeW fs, y.1 ≠ b ∧ isUnder b y.1 = false := by
    intro y hy
    obtain ⟨x, hx, h1, _, _⟩ := mem_treeW.mp hy
    exact ⟨fun h => (FS.find?_none.mp hbf) x hx (h1.trans h),
      by rw [← h1]; exact hwf.no_descendants_of_missing hbn (by simp [FS.exists, hbf]) x hx⟩
  have hkeep : ∀ y ∈ eraseSub (treeW fs) a, y ∈ treeW (fs.renamed a c) := by
    intro y hy
    obtain ⟨h0, h1, h2⟩ := mem_eraseSub.mp hy
    obtain ⟨x, hx, g1, g2, g3⟩ := mem_treeW.mp h0
    refine mem_treeW.mpr ⟨x, FS.mem_renamed.mpr ⟨x, hx, (FS.find?_none.mp hcf) x hx,
      (rwEnt_fixed (by rw [g1]; exact h1) (by rw [g1]; exact h2)).symm⟩, g1, g2, g3⟩
  have hcT : (c, true) ∈ treeW (fs.renamed a c) := by
    refine mem_treeW.mpr ⟨rwEnt a c e, FS.mem_renamed.mpr ⟨e, hem.1, by rw [hem.2]; exact ok2.hne, rfl⟩, ?_, ?_, hWc⟩
    · simp [rwEnt, hem.2, rwPath_at]
    · simpa [rwEnt] using hd
  have hdescT : ∀ d ∈ (fs.renamed a c).descendants c, (d.path, d.isDir) ∈ treeW (fs.renamed a c) := by
    intro d hd'
    unfold FS.descendants at hd'
    obtain ⟨h1, h2⟩ := List.mem_filter.mp hd'
    exact mem_treeW.mpr ⟨d, h1, rfl, rfl, isUnder_trans hWc h2⟩
  have hfirst : replay (treeW fs) ([mkEv .DirMovedEvent a b, dirMod a, dirMod b] ++ [mkEv .DirMovedEvent b c, dirMod b, dirMod c]) =
      setEntry (eraseSub (setEntry (eraseSub (treeW fs) a) b true) b) c true := by
    simp [replay, applyEv, mkEv, dirMod, EvClass.eventType, EvClass.isDirectory, han, hbn, hcn]
  have hsame : sameTree (setEntry (eraseSub (setEntry (eraseSub (treeW fs) a) b true) b) c true)
      (setEntry (eraseSub (treeW fs) a) c true) := by
    apply sameTree_setEntry
    intro y
    rw [mem_eraseSub, mem_setEntry]
    constructor
    · rintro ⟨(⟨h, _⟩ | h), h2, _⟩
      · exact h
      · rw [h] at h2; exact absurd rfl h2
    · intro h
      obtain ⟨a1, a2⟩ := ht0b y (mem_eraseSub.mp h).1
      exact ⟨Or.inl ⟨h, a1⟩, a1, a2⟩
  unfold chainEvents
  rw [← List.append_assoc, replay_append, hfirst]
  refine sameTree_trans (sameTree_replay hsame _) ?_
  have hin : ∀ y ∈ setEntry (eraseSub (treeW fs) a) c true, y ∈ treeW (fs.renamed a c) := by
    intro y hy
    rcases mem_setEntry.mp hy with ⟨h, _⟩ | rfl
    · exact hkeep y h
    · exact hcT
  have hevs : ∀ ev ∈ subMoved (fs.renamed a c) b c, ev.cls.eventType = "moved" ∧ (ev.src = b ∨ isUnder b ev.src = true) ∧
      ev.src ≠ [] ∧ ev.dest ≠ [] ∧ (ev.dest, ev.cls.isDirectory) ∈ treeW (fs.renamed a c) := by
    intro ev hev
    obtain ⟨d, hd', rfl⟩ := List.mem_map.mp hev
    have hdu : isUnder c d.path = true := by
      unfold FS.descendants at hd'; exact (List.mem_filter.mp hd').2
    have hsrc : isUnder b (b ++ d.path.drop c.length) = true := rewrite_under hdu
    refine ⟨by cases d.isDir <;> simp [mkEv, EvClass.eventType], Or.inr (by simpa [mkEv] using hsrc), ?_, ?_, ?_⟩
    · simp only [mkEv]; intro h; exact hbn (List.append_eq_nil_iff.mp h).1
    · simp only [mkEv]; intro h; rw [h] at hdu; have := isUnder_length hdu; simp at this
    · have := hdescT d hd'
      cases hk : d.isDir <;> simpa [mkEv, EvClass.isDirectory, hk] using this
  intro y
  rw [replay_arrivals _ b hT hTb _ _ hin hevs y, mem_setEntry]
  constructor
  · rintro ((⟨h, _⟩ | h) | ⟨ev, hev, h⟩)
    · exact hkeep y h
    · rw [h]; exact hcT
    · rw [h]; exact (hevs ev hev).2.2.2.2
  · intro hy
    obtain ⟨u, hu, hu1, hu2, hu3⟩ := mem_treeW.mp hy
    obtain ⟨x, hxf, hxq, rfl⟩ := FS.mem_renamed.mp hu
    rcases rwPath_cases a c x.path with ⟨h1, e1⟩ | ⟨hx, _, u1⟩ | ⟨h1, h2, e1⟩
    · left; right
      have hxe : x = e := hwf.path_inj hxf hem.1 (h1.trans hem.2.symm)
      subst hxe
      apply Prod.ext
      · simp only [rwEnt, e1] at hu1; exact hu1.symm
      · simp only [rwEnt] at hu2; rw [← hu2, hd]
    · right
      have hdm : rwEnt a c x ∈ (fs.renamed a c).descendants c := by
        unfold FS.descendants; exact List.mem_filter.mpr ⟨hu, by simpa [rwEnt] using u1⟩
      refine ⟨_, List.mem_map.mpr ⟨_, hdm, rfl⟩, ?_⟩
      apply Prod.ext
      · simp only [mkEv]; exact hu1.symm
      · simp only [mkEv]
        cases hk : (rwEnt a c x).isDir <;> simp [EvClass.isDirectory] <;> rw [← hu2, hk]
    · left; left
      have hfix := rwEnt_fixed (q := c) h1 h2
      rw [hfix] at hu1 hu2
      refine ⟨mem_eraseSub.mpr ⟨mem_treeW.mpr ⟨x, hxf, hu1, hu2, hu3⟩, by rw [← hu1]; exact h1, by rw [← hu1]; exact h2⟩,
        by rw [← hu1]; exact hxq⟩

end WD.Pipe
