/- proofs behind WD.Props.C01 -/
import WD.Model.Pipeline
import WD.Spec.PipelineSpec
namespace WD.ProofsPipe
open WD WD.Pipe

theorem replay_sync (fs0 : FS) (hwf : fs0.WF) (full : Bool) (ops : List Op)
    (h : histOk (Sys.start fs0 true full) ops = true) :
    sameTree (replay (treeW fs0) (allEvents ((Sys.start fs0 true full).run ops)))
             (treeW ((Sys.start fs0 true full).run ops).1.fs) := by
  sorry

theorem replay_sync_nonrecursive (fs0 : FS) (hwf : fs0.WF) (full : Bool) (ops : List Op)
    (h : histOk (Sys.start fs0 false full) ops = true) :
    sameTree ((replay (treeW1 fs0) (allEvents ((Sys.start fs0 false full).run ops))).filter (fun x => x.1.length = 2))
             (treeW1 ((Sys.start fs0 false full).run ops).1.fs) := by
  sorry

end WD.ProofsPipe
