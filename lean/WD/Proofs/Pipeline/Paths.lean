/- path facts: prefixes, parents, base names -/
import WD.Model.Pipeline
namespace WD.Pipe

theorem isUnder_iff {p q : P} : isUnder p q = true ↔ ∃ r, r ≠ [] ∧ q = p ++ r := by
  unfold isUnder
  constructor
  · intro h
    simp only [Bool.and_eq_true, decide_eq_true_eq, beq_iff_eq] at h
    refine ⟨q.drop p.length, ?_, ?_⟩
    · intro hd
      have : (q.drop p.length).length = 0 := by rw [hd]; rfl
      simp at this; omega
    · conv => lhs; rw [← List.take_append_drop p.length q]
      rw [h.2]
  · rintro ⟨r, hr, rfl⟩
    have : 0 < r.length := List.length_pos_iff.mpr hr
    simp; omega

theorem isUnder_append (p : P) {r : P} (hr : r ≠ []) : isUnder p (p ++ r) = true :=
  isUnder_iff.mpr ⟨r, hr, rfl⟩

theorem isUnder_snoc (p : P) (n : String) : isUnder p (p ++ [n]) = true := isUnder_append p (by simp)

theorem isUnder_irrefl (p : P) : isUnder p p = false := by
  unfold isUnder; simp

theorem isUnder_trans {a b c : P} (h1 : isUnder a b = true) (h2 : isUnder b c = true) : isUnder a c = true := by
  obtain ⟨r, hr, rfl⟩ := isUnder_iff.mp h1
  obtain ⟨t, _, rfl⟩ := isUnder_iff.mp h2
  rw [List.append_assoc]
  exact isUnder_append a (by simp [hr])

theorem isUnder_length {p q : P} (h : isUnder p q = true) : p.length < q.length := by
  unfold isUnder at h; simp at h; exact h.1

theorem isUnder_ne {p q : P} (h : isUnder p q = true) : p ≠ q := by
  intro e; subst e; rw [isUnder_irrefl] at h; cases h

theorem parentOf_snoc (p : P) (n : String) : parentOf (p ++ [n]) = p := by simp [parentOf]
theorem baseName_snoc (p : P) (n : String) : baseName (p ++ [n]) = n := by simp [baseName]

theorem snoc_parent_base {q : P} (h : q ≠ []) : parentOf q ++ [baseName q] = q := by
  unfold parentOf baseName
  rw [List.getLast?_eq_some_getLast h]
  simpa using List.dropLast_concat_getLast h

theorem ne_nil_of_two_le {q : P} (h : 2 ≤ q.length) : q ≠ [] := by
  intro e; subst e; simp at h

theorem parentOf_length (q : P) : (parentOf q).length = q.length - 1 := by simp [parentOf]

/-- an entry below `a` has its parent at `a` or below `a` -/
theorem isUnder_parent {a q : P} (h : isUnder a q = true) : parentOf q = a ∨ isUnder a (parentOf q) = true := by
  obtain ⟨r, hr, rfl⟩ := isUnder_iff.mp h
  have : parentOf (a ++ r) = a ++ r.dropLast := by
    unfold parentOf
    rw [List.dropLast_append_of_ne_nil hr]
  rw [this]
  by_cases hd : r.dropLast = []
  · left; simp [hd]
  · right; exact isUnder_append a hd

theorem isUnder_of_parent {a q : P} (hq : q ≠ []) (h : parentOf q = a ∨ isUnder a (parentOf q) = true) : isUnder a q = true := by
  have e := snoc_parent_base hq
  rw [← e]
  rcases h with h | h
  · rw [h]; exact isUnder_snoc a _
  · exact isUnder_trans h (isUnder_snoc _ _)

/-- rewriting a prefix: `q ++ x.drop p.length` for `x` below `p` -/
theorem rewrite_under {p q x : P} (h : isUnder p x = true) : isUnder q (q ++ x.drop p.length) = true := by
  obtain ⟨r, hr, rfl⟩ := isUnder_iff.mp h
  simp only [List.drop_left']
  exact isUnder_append q hr

theorem drop_of_under {p r : P} : (p ++ r).drop p.length = r := by simp

/-- two prefixes of one path are comparable -/
theorem prefix_comparable {a b x : P} (ha : isUnder a x = true) (hb : isUnder b x = true) :
    a = b ∨ isUnder a b = true ∨ isUnder b a = true := by
  obtain ⟨r, _, rfl⟩ := isUnder_iff.mp ha
  obtain ⟨t, _, h⟩ := isUnder_iff.mp hb
  have h1 : a <+: a ++ r := List.prefix_append a r
  have h2 : b <+: a ++ r := ⟨t, h.symm⟩
  rcases List.prefix_or_prefix_of_prefix h1 h2 with ⟨u, hu⟩ | ⟨u, hu⟩
  · by_cases hn : u = []
    · left; simpa [hn] using hu
    · right; left; rw [← hu]; exact isUnder_append a hn
  · by_cases hn : u = []
    · left; simpa [hn] using hu.symm
    · right; right; rw [← hu]; exact isUnder_append b hn

end WD.Pipe
