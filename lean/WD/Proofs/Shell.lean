/- WD.Shell: with `wait_for_process` or `drop_during_process` commands never overlap -/
import WD.Model.Shell
namespace WD.ProofsShell
open WD.Shell

/-- wait mode: a live command is the one the dispatcher is blocked on -/
def InvW (s : State) : Prop := ∀ pid, s.aliveP pid = true → s.pc = .waitProc pid

/-- drop mode (not waiting): a live command has its watcher in the set; a watcher in the set watches the current command -/
def InvD (s : State) : Prop :=
  (∀ pid, s.aliveP pid = true → ∃ (j : Nat) (w : Watcher), s.watchers[j]? = some w ∧ w.pid = pid ∧ w.inSet = true) ∧
  (∀ (j : Nat) (w : Watcher), s.watchers[j]? = some w → w.inSet = true → s.process = some w.pid)

structure Inv (s : State) : Prop where
  w : s.wait = true → InvW s
  d : s.wait = false → s.drop = true → InvD s

theorem spawn_alive_old {s : State} (hq : ∀ pid, s.aliveP pid = false) (pid : Nat) (h : s.spawn.aliveP pid = true) :
    pid = s.procs.length := by
  by_cases e : pid = s.procs.length
  · exact e
  · have hd := hq pid
    simp only [State.aliveP, State.spawn, State.log] at hd h
    rw [List.getElem?_append] at h
    by_cases hl : pid < s.procs.length
    · simp only [hl, if_true] at h; rw [hd] at h; cases h
    · simp only [hl, if_false] at h
      cases hk : pid - s.procs.length with
      | zero => omega
      | succ k => simp [hk] at h

theorem not_running {s : State} (h : s.running = false) :
    (∀ (j : Nat) (w : Watcher), s.watchers[j]? = some w → w.inSet = false) ∧
    (∀ pid, s.process = some pid → s.aliveP pid = false) := by
  unfold State.running at h
  simp only [Bool.or_eq_false_iff] at h
  refine ⟨?_, ?_⟩
  · intro j w hj
    have hm : w ∈ s.watchers := List.mem_of_getElem? hj
    have := List.any_eq_false.1 h.1 w hm
    simpa using this
  · intro pid hp; have := h.2; rw [hp] at this; exact this

/-- the dispatcher moving on, from a state in which (wait mode) no command is alive -/
theorem arriveL_inv (script : List Op) : ∀ s : State, (s.wait = true → ∀ pid, s.aliveP pid = false) →
    (s.wait = false → s.drop = true → InvD s) → Inv (arriveL script s) := by
  induction script with
  | nil =>
    intro s hw hd
    refine ⟨fun x => ?_, fun a b => hd a b⟩
    intro pid hp
    have : s.aliveP pid = false := hw x pid
    have hp' : s.aliveP pid = true := hp
    rw [this] at hp'; cases hp'
  | cons op rest ih =>
    intro s hw hd
    cases op with
    | sleep d =>
      refine ⟨fun x => ?_, fun a b => hd a b⟩
      intro pid hp
      have : s.aliveP pid = false := hw x pid
      have hp' : s.aliveP pid = true := hp
      rw [this] at hp'; cases hp'
    | event =>
      simp only [arriveL]
      split
      · exact ih (s.log _) hw hd
      · next hnr =>
        split
        · next hwt =>
          refine ⟨fun _ => ?_, fun a => by simp [State.spawn, State.log, hwt] at a⟩
          intro pid hp
          have : pid = s.procs.length := spawn_alive_old (hw hwt) pid hp
          subst this; rfl
        · next hwt =>
          have hwf : s.wait = false := by simpa using hwt
          refine ⟨fun a => by simp [State.spawn, State.log, hwf] at a, fun _ hdr => ?_⟩
          have hdr' : s.drop = true := hdr
          have hnr' : s.running = false := by simpa [hdr'] using hnr
          obtain ⟨noSet, curDead⟩ := not_running hnr'
          have allDead : ∀ pid, s.aliveP pid = false := by
            intro pid
            cases ha : s.aliveP pid
            · rfl
            · obtain ⟨j, w, hj, _, hin⟩ := (hd hwf hdr').1 pid ha
              rw [noSet j w hj] at hin; cases hin
          refine ⟨?_, ?_⟩
          · intro pid hp
            have : pid = s.procs.length := spawn_alive_old allDead pid hp
            subst this
            exact ⟨s.watchers.length, { pid := s.procs.length }, by simp [State.spawn, State.log], rfl, rfl⟩
          · intro j w hj hin
            simp only [State.spawn, State.log] at hj ⊢
            rw [List.getElem?_append] at hj
            by_cases hl : j < s.watchers.length
            · simp only [hl, if_true] at hj
              rw [noSet j w hj] at hin; cases hin
            · simp only [hl, if_false] at hj
              cases hk : j - s.watchers.length with
              | zero => simp [hk] at hj; subst hj; rfl
              | succ k => simp [hk] at hj

theorem clientStep_inv {s : State} (h : Inv s) (hen : clientEnabled s = true) : Inv (clientStep s) := by
  unfold clientStep arrive
  have hD : s.wait = false → s.drop = true → InvD s := h.d
  split
  · next hb =>
    refine arriveL_inv _ s (fun x pid => ?_) hD
    cases ha : s.aliveP pid
    · rfl
    · have := h.w x pid ha; rw [hb] at this; cases this
  · next hb =>
    refine arriveL_inv _ s (fun x pid => ?_) hD
    cases ha : s.aliveP pid
    · rfl
    · have := h.w x pid ha; rw [hb] at this; cases this
  · next p hb =>
    refine arriveL_inv _ (s.log _) (fun x pid => ?_) hD
    show s.aliveP pid = false
    cases ha : s.aliveP pid
    · rfl
    · have := h.w x pid ha; rw [hb] at this; cases this
      simp [clientEnabled, hb, ha] at hen
  · next hb =>
    refine arriveL_inv _ (s.log _) (fun x pid => ?_) hD
    show s.aliveP pid = false
    cases ha : s.aliveP pid
    · rfl
    · have := h.w x pid ha; rw [hb] at this; cases this
  · exact h

theorem watcherStep_inv {s : State} {k : Nat} {w : Watcher} (h : Inv s) (hk : s.watchers[k]? = some w) :
    Inv (watcherStep s k w) := by
  have hkl : k < s.watchers.length := by
    by_cases hl : k < s.watchers.length
    · exact hl
    · rw [List.getElem?_eq_none (by omega)] at hk; cases hk
  unfold watcherStep
  split
  · exact h
  · split
    · next _ halive =>
      refine ⟨fun x => (fun pid hp => h.w x pid hp : InvW _), fun a b => ?_⟩
      obtain ⟨d1, d2⟩ := h.d a b
      refine ⟨?_, ?_⟩
      · intro pid hp
        obtain ⟨j, w', hj, e1, e2⟩ := d1 pid hp
        by_cases hjk : j = k
        · subst hjk; rw [hk] at hj; cases hj
          exact ⟨j, { w with pc := .wWait (s.clock + 100) }, by simp [hkl], e1, e2⟩
        · exact ⟨j, w', by simp [Ne.symm hjk, hj], e1, e2⟩
      · intro j w' hj hin
        simp only [List.getElem?_set] at hj
        by_cases hjk : k = j
        · subst hjk; simp [hkl] at hj; subst hj; exact d2 k w hk hin
        · simp [hjk] at hj; exact d2 j w' hj hin
    · next _ hdead =>
      have hdead' : s.aliveP w.pid = false := by simpa using hdead
      refine ⟨fun x => (fun pid hp => h.w x pid hp : InvW _), fun a b => ?_⟩
      obtain ⟨d1, d2⟩ := h.d a b
      refine ⟨?_, ?_⟩
      · intro pid hp
        obtain ⟨j, w', hj, e1, e2⟩ := d1 pid hp
        have hjk : j ≠ k := by
          rintro rfl; rw [hk] at hj; cases hj; rw [e1] at hdead'
          have hp' : s.aliveP pid = true := hp
          rw [hdead'] at hp'; cases hp'
        exact ⟨j, w', by simp [Ne.symm hjk, hj], e1, e2⟩
      · intro j w' hj hin
        simp only [List.getElem?_set] at hj
        by_cases hjk : k = j
        · subst hjk; simp [hkl] at hj; subst hj; cases hin
        · simp [hjk] at hj; exact d2 j w' hj hin

theorem step_inv {s s' : State} {i : Nat} (h : Inv s) (hs : step s i = some s') : Inv s' := by
  cases i with
  | zero =>
    simp only [step] at hs
    split at hs
    · next hen => cases hs; exact clientStep_inv h hen
    · cases hs
  | succ k =>
    simp only [step] at hs
    split at hs
    · next w hk =>
      split at hs
      · cases hs; exact watcherStep_inv h hk
      · cases hs
    · cases hs

theorem aliveP_tick {s : State} (d pid : Nat) (h : ({ s with clock := s.clock + d } : State).aliveP pid = true) :
    s.aliveP pid = true := by
  simp only [State.aliveP] at h ⊢
  cases hp : s.procs[pid]? with
  | none => simp [hp] at h
  | some p =>
    simp only [hp, Proc.alive] at h ⊢
    split at h <;> simp_all <;> omega

theorem tick_inv {s : State} (h : Inv s) (d : Nat) : Inv ({ s with clock := s.clock + d } : State) := by
  refine ⟨fun x => ?_, fun a b => ?_⟩
  · intro pid hp
    exact h.w x pid (aliveP_tick d pid hp)
  · obtain ⟨d1, d2⟩ := h.d a b
    exact ⟨fun pid hp => d1 pid (aliveP_tick d pid hp), d2⟩

theorem init_inv (wait drop : Bool) (lifetimes : List (Option Nat)) (script : List Op) :
    Inv (init wait drop lifetimes script) :=
  ⟨fun _ => (fun pid hp => by simp [State.aliveP, init] at hp : InvW _),
   fun _ _ => ⟨fun pid hp => by simp [State.aliveP, init] at hp, fun j w hj => by simp [init] at hj⟩⟩

theorem run_inv {s : State} (h : Inv s) (as : List Action) : Inv (run s as) := by
  induction as generalizing s with
  | nil => exact h
  | cons a as ih =>
    refine ih ?_
    cases a with
    | step tid =>
      simp only [act]
      cases hs : step s tid with
      | none => exact h
      | some s' => exact step_inv h hs
    | tick d => exact tick_inv h d

/-! the configuration does not change -/

theorem arriveL_cfg (script : List Op) : ∀ s : State, (arriveL script s).wait = s.wait ∧ (arriveL script s).drop = s.drop := by
  induction script with
  | nil => intro s; exact ⟨rfl, rfl⟩
  | cons op rest ih =>
    intro s
    cases op with
    | sleep d => exact ⟨rfl, rfl⟩
    | event =>
      simp only [arriveL]
      split
      · exact ih _
      · split <;> exact ⟨rfl, rfl⟩

theorem act_cfg (s : State) (a : Action) : (act s a).wait = s.wait ∧ (act s a).drop = s.drop := by
  cases a with
  | tick d => exact ⟨rfl, rfl⟩
  | step tid =>
    simp only [act]
    cases tid with
    | zero =>
      simp only [step]
      split
      · simp only [Option.getD_some, clientStep, arrive]
        split <;> first | exact arriveL_cfg _ _ | exact ⟨rfl, rfl⟩
      · exact ⟨rfl, rfl⟩
    | succ k =>
      simp only [step]
      split
      · split
        · simp only [Option.getD_some, watcherStep]
          split
          · exact ⟨rfl, rfl⟩
          · split <;> exact ⟨rfl, rfl⟩
        · exact ⟨rfl, rfl⟩
      · exact ⟨rfl, rfl⟩

theorem run_cfg (s : State) (as : List Action) : (run s as).wait = s.wait ∧ (run s as).drop = s.drop := by
  induction as generalizing s with
  | nil => exact ⟨rfl, rfl⟩
  | cons a as ih =>
    have h1 := ih (act s a)
    have h2 := act_cfg s a
    exact ⟨h1.1.trans h2.1, h1.2.trans h2.2⟩

theorem no_overlap (wait drop : Bool) (lifetimes : List (Option Nat)) (script : List Op) (as : List Action)
    (hwd : wait = true ∨ drop = true) (p q : Nat)
    (hp : (run (init wait drop lifetimes script) as).aliveP p = true)
    (hq : (run (init wait drop lifetimes script) as).aliveP q = true) : p = q := by
  have inv := run_inv (init_inv wait drop lifetimes script) as
  obtain ⟨cw, cd⟩ := run_cfg (init wait drop lifetimes script) as
  have cw' : (run (init wait drop lifetimes script) as).wait = wait := cw
  have cd' : (run (init wait drop lifetimes script) as).drop = drop := cd
  cases hw : wait
  · have hdrop : drop = true := by rcases hwd with e | e; · rw [hw] at e; cases e
                                   · exact e
    obtain ⟨d1, d2⟩ := inv.d (by rw [cw', hw]) (by rw [cd', hdrop])
    obtain ⟨j1, w1, a1, b1, c1⟩ := d1 p hp
    obtain ⟨j2, w2, a2, b2, c2⟩ := d1 q hq
    have e1 := d2 j1 w1 a1 c1
    have e2 := d2 j2 w2 a2 c2
    rw [e1, b1, b2] at e2
    cases e2; rfl
  · have e1 := inv.w (by rw [cw', hw]) p hp
    have e2 := inv.w (by rw [cw', hw]) q hq
    rw [e1] at e2; cases e2; rfl

end WD.ProofsShell
