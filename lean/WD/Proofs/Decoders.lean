/- helper lemmas and the proofs behind WD.Props.C20 -/
import WD.Model.Decoders
namespace WD.ProofsDec
open WD.Dec

/- ---------------- generic byte lemmas ---------------- -/

theorem le32_length (n : Nat) : (le32 n).length = 4 := rfl

theorem getD_append_off (pre X : List Nat) (k d : Nat) :
    (pre ++ X).getD (pre.length + k) d = X.getD k d := by
  simp [List.getD_eq_getElem?_getD, List.getElem?_append_right]

theorem rd32_append_off (pre X : Bytes) (k : Nat) :
    rd32 (pre ++ X) (pre.length + k) = rd32 X k := by
  unfold rd32
  rw [Nat.add_assoc pre.length k 1, Nat.add_assoc pre.length k 2, Nat.add_assoc pre.length k 3]
  simp only [getD_append_off]

theorem rd32_append_off0 (pre X : Bytes) : rd32 (pre ++ X) pre.length = rd32 X 0 := by
  have := rd32_append_off pre X 0
  simpa using this

theorem rd32_hdr0 (a : Nat) (rest : Bytes) (ha : a < 2 ^ 32) : rd32 (le32 a ++ rest) 0 = a := by
  simp [rd32, le32]; omega

theorem rd32_hdr4 (a b : Nat) (rest : Bytes) (hb : b < 2 ^ 32) :
    rd32 (le32 a ++ le32 b ++ rest) 4 = b := by
  simp [rd32, le32]; omega

theorem rd32_hdr8 (a b c : Nat) (rest : Bytes) (hc : c < 2 ^ 32) :
    rd32 (le32 a ++ le32 b ++ le32 c ++ rest) 8 = c := by
  simp [rd32, le32]; omega

theorem rd32_hdr12 (a b c d : Nat) (rest : Bytes) (hd : d < 2 ^ 32) :
    rd32 (le32 a ++ le32 b ++ le32 c ++ le32 d ++ rest) 12 = d := by
  simp [rd32, le32]; omega

theorem dropWhile_replicate0 (pad : Nat) (l : List Nat) :
    (List.replicate pad 0 ++ l).dropWhile (· == 0) = l.dropWhile (· == 0) := by
  induction pad with
  | zero => simp
  | succ n ih => simp [List.replicate_succ, ih]

theorem rstrip0_pad (name : Bytes) (pad : Nat) (h : name.getLast? ≠ some 0) :
    rstrip0 (name ++ List.replicate pad 0) = name := by
  unfold rstrip0
  rw [List.reverse_append, List.reverse_replicate, dropWhile_replicate0]
  have : name.reverse.dropWhile (· == 0) = name.reverse := by
    rw [List.getLast?_eq_head?_reverse] at h
    cases hr : name.reverse with
    | nil => rfl
    | cons x xs =>
      rw [hr] at h
      have hx : x ≠ 0 := by simpa using h
      simp [hx]
  rw [this, List.reverse_reverse]

/- ---------------- inotify ---------------- -/

theorem encodeInoRec_length (r : InoRec) (pad : Nat) :
    (encodeInoRec r pad).length = 16 + (r.name.length + pad) := by
  simp [encodeInoRec, le32_length]; omega

theorem parseIno_step (f : Nat) (pre tail : Bytes) (r : InoRec) (pad : Nat)
    (hwd : r.wd < 2 ^ 32) (hmask : r.mask < 2 ^ 32) (hcookie : r.cookie < 2 ^ 32)
    (hlen : r.name.length + pad < 2 ^ 32) (hlast : r.name.getLast? ≠ some 0) :
    parseIno (f + 1) (pre ++ (encodeInoRec r pad ++ tail)) pre.length =
      r :: parseIno f ((pre ++ encodeInoRec r pad) ++ tail) (pre ++ encodeInoRec r pad).length := by
  have hcond : pre.length + 16 ≤ (pre ++ (encodeInoRec r pad ++ tail)).length := by
    simp [encodeInoRec_length]; omega
  rw [parseIno, if_pos hcond]
  have e0 : rd32 (pre ++ (encodeInoRec r pad ++ tail)) pre.length = r.wd := by
    rw [rd32_append_off0]; simp only [encodeInoRec, List.append_assoc]
    exact rd32_hdr0 _ _ hwd
  have e4 : rd32 (pre ++ (encodeInoRec r pad ++ tail)) (pre.length + 4) = r.mask := by
    rw [rd32_append_off]; simp only [encodeInoRec, List.append_assoc]
    simpa only [List.append_assoc] using rd32_hdr4 r.wd r.mask _ hmask
  have e8 : rd32 (pre ++ (encodeInoRec r pad ++ tail)) (pre.length + 8) = r.cookie := by
    rw [rd32_append_off]; simp only [encodeInoRec, List.append_assoc]
    simpa only [List.append_assoc] using rd32_hdr8 r.wd r.mask r.cookie _ hcookie
  have e12 : rd32 (pre ++ (encodeInoRec r pad ++ tail)) (pre.length + 12) = r.name.length + pad := by
    rw [rd32_append_off]; simp only [encodeInoRec, List.append_assoc]
    simpa only [List.append_assoc] using rd32_hdr12 r.wd r.mask r.cookie (r.name.length + pad) _ hlen
  have ed : ((pre ++ (encodeInoRec r pad ++ tail)).drop (pre.length + 16)).take (r.name.length + pad)
      = r.name ++ List.replicate pad 0 := by
    have : pre ++ (encodeInoRec r pad ++ tail) =
        (pre ++ (le32 r.wd ++ le32 r.mask ++ le32 r.cookie ++ le32 (r.name.length + pad))) ++
          ((r.name ++ List.replicate pad 0) ++ tail) := by
      simp [encodeInoRec, List.append_assoc]
    rw [this, List.drop_left' (by simp [le32_length]), List.take_left' (by simp)]
  simp only [e0, e4, e8, e12, ed, rstrip0_pad _ _ hlast]
  congr 1
  rw [List.append_assoc]
  congr 1
  simp [encodeInoRec_length]; omega

theorem parseIno_encode (rs : List (InoRec × Nat))
    (h : ∀ x ∈ rs, x.1.wd < 2 ^ 32 ∧ x.1.mask < 2 ^ 32 ∧ x.1.cookie < 2 ^ 32 ∧ x.1.name.length + x.2 < 2 ^ 32 ∧
      (∀ b ∈ x.1.name, b < 256) ∧ x.1.name.getLast? ≠ some 0) :
    ∀ (fuel : Nat) (pre : Bytes), rs.length + 1 ≤ fuel →
      parseIno fuel (pre ++ encodeIno rs) pre.length = rs.map Prod.fst := by
  induction rs with
  | nil =>
    intro fuel pre hf
    cases fuel with
    | zero => omega
    | succ f => simp [parseIno, encodeIno]
  | cons x rest ih =>
    intro fuel pre hf
    obtain ⟨r, pad⟩ := x
    cases fuel with
    | zero => omega
    | succ f =>
      obtain ⟨h1, h2, h3, h4, -, h6⟩ := h (r, pad) (by simp)
      simp only [encodeIno]
      rw [parseIno_step f pre _ r pad h1 h2 h3 h4 h6,
        ih (fun y hy => h y (List.mem_cons_of_mem _ hy)) f _ (by simp at hf; omega)]
      rfl

theorem encodeIno_length (rs : List (InoRec × Nat)) : rs.length ≤ (encodeIno rs).length := by
  induction rs with
  | nil => simp
  | cons x rest ih =>
    obtain ⟨r, pad⟩ := x
    simp [encodeIno, encodeInoRec_length]; omega

theorem inotify_decode_encode (rs : List (InoRec × Nat))
    (h : ∀ x ∈ rs, x.1.wd < 2 ^ 32 ∧ x.1.mask < 2 ^ 32 ∧ x.1.cookie < 2 ^ 32 ∧ x.1.name.length + x.2 < 2 ^ 32 ∧
      (∀ b ∈ x.1.name, b < 256) ∧ x.1.name.getLast? ≠ some 0) :
    decodeIno (encodeIno rs) = rs.map Prod.fst := by
  have := parseIno_encode rs h ((encodeIno rs).length + 1) [] (by have := encodeIno_length rs; omega)
  simpa [decodeIno] using this

/- ---------------- Windows ---------------- -/

theorem bytes16_length (us : List Nat) : (bytes16 us).length = 2 * us.length := by
  induction us with
  | nil => rfl
  | cons u rest ih => simp [bytes16, ih]; omega

theorem units16_bytes16 (us : List Nat) (h : ∀ u ∈ us, u < 65536) : units16 (bytes16 us) = us := by
  induction us with
  | nil => rfl
  | cons u rest ih =>
    have hu : u < 65536 := h u (by simp)
    simp only [bytes16, units16]
    rw [ih (fun v hv => h v (List.mem_cons_of_mem _ hv))]
    congr 1
    omega

theorem parseWin_step (f n nx : Nat) (r : WinRec) (tail : Bytes) (hn : n ≠ 0)
    (hnx : nx < 2 ^ 32) (ha : r.action < 2 ^ 32) (hlen : 2 * r.name.length < 2 ^ 32)
    (hu : ∀ u ∈ r.name, u < 65536) :
    parseWin (f + 1) (le32 nx ++ le32 r.action ++ le32 (2 * r.name.length) ++ bytes16 r.name ++ tail) n =
      if nx = 0 then [r] else
        r :: parseWin f
          ((le32 nx ++ le32 r.action ++ le32 (2 * r.name.length) ++ bytes16 r.name ++ tail).drop nx) (n - nx) := by
  rw [parseWin, if_neg hn]
  have e0 : rd32 (le32 nx ++ le32 r.action ++ le32 (2 * r.name.length) ++ bytes16 r.name ++ tail) 0 = nx := by
    simpa only [List.append_assoc] using rd32_hdr0 nx _ hnx
  have e4 : rd32 (le32 nx ++ le32 r.action ++ le32 (2 * r.name.length) ++ bytes16 r.name ++ tail) 4
      = r.action := by
    simpa only [List.append_assoc] using rd32_hdr4 nx r.action _ ha
  have e8 : rd32 (le32 nx ++ le32 r.action ++ le32 (2 * r.name.length) ++ bytes16 r.name ++ tail) 8
      = 2 * r.name.length := by
    simpa only [List.append_assoc] using rd32_hdr8 nx r.action (2 * r.name.length) _ hlen
  have ed : ((le32 nx ++ le32 r.action ++ le32 (2 * r.name.length) ++ bytes16 r.name ++ tail).drop 12).take
      (2 * r.name.length) = bytes16 r.name := by
    rw [List.append_assoc _ (bytes16 r.name) tail, List.drop_left' (by simp [le32_length]),
      List.take_left' (bytes16_length _)]
  simp only [e0, e4, e8, ed, units16_bytes16 _ hu]

theorem encodeWin_single (r : WinRec) (pad : Nat) :
    encodeWin [(r, pad)] =
      le32 0 ++ le32 r.action ++ le32 (2 * r.name.length) ++ bytes16 r.name ++ List.replicate pad 0 := rfl

theorem encodeWin_cons2 (r : WinRec) (pad : Nat) (y : WinRec × Nat) (rest : List (WinRec × Nat)) :
    encodeWin ((r, pad) :: y :: rest) =
      le32 (12 + 2 * r.name.length + pad) ++ le32 r.action ++ le32 (2 * r.name.length) ++ bytes16 r.name ++
        (List.replicate pad 0 ++ encodeWin (y :: rest)) := by
  simp [encodeWin]

theorem encodeWin_length_pos (rs : List (WinRec × Nat)) (hne : rs ≠ []) : (encodeWin rs).length ≠ 0 := by
  match rs, hne with
  | [(r, pad)], _ => simp [encodeWin_single, le32_length]
  | (r, pad) :: y :: rest, _ => simp [encodeWin_cons2, le32_length]

theorem parseWin_encode (rs : List (WinRec × Nat)) (hne : rs ≠ [])
    (h : ∀ x ∈ rs, x.1.action < 2 ^ 32 ∧ 12 + 2 * x.1.name.length + x.2 < 2 ^ 32 ∧ (∀ u ∈ x.1.name, u < 65536)) :
    ∀ fuel : Nat, rs.length ≤ fuel →
      parseWin fuel (encodeWin rs) (encodeWin rs).length = rs.map Prod.fst := by
  induction rs with
  | nil => exact absurd rfl hne
  | cons x rest ih =>
    intro fuel hf
    obtain ⟨r, pad⟩ := x
    obtain ⟨h1, h2, h3⟩ := h (r, pad) (by simp)
    simp only at h1 h2 h3
    cases fuel with
    | zero => simp at hf
    | succ f =>
      have hpos := encodeWin_length_pos ((r, pad) :: rest) (by simp)
      cases rest with
      | nil =>
        rw [encodeWin_single] at hpos ⊢
        rw [parseWin_step f _ 0 r _ hpos (by omega) h1 (by omega) h3]
        simp
      | cons y rest' =>
        rw [encodeWin_cons2] at hpos ⊢
        rw [parseWin_step f _ _ r _ hpos h2 h1 (by omega) h3, if_neg (by omega)]
        have hd : (le32 (12 + 2 * r.name.length + pad) ++ le32 r.action ++ le32 (2 * r.name.length) ++
            bytes16 r.name ++ (List.replicate pad 0 ++ encodeWin (y :: rest'))).drop
              (12 + 2 * r.name.length + pad) = encodeWin (y :: rest') := by
          rw [← List.append_assoc]
          exact List.drop_left' (by simp [le32_length, bytes16_length]; omega)
        have hl : (le32 (12 + 2 * r.name.length + pad) ++ le32 r.action ++ le32 (2 * r.name.length) ++
            bytes16 r.name ++ (List.replicate pad 0 ++ encodeWin (y :: rest'))).length -
              (12 + 2 * r.name.length + pad) = (encodeWin (y :: rest')).length := by
          simp [le32_length, bytes16_length]; omega
        rw [hd, hl, ih (by simp) (fun z hz => h z (List.mem_cons_of_mem _ hz)) f (by simp at hf ⊢; omega)]
        rfl

theorem encodeWin_length (rs : List (WinRec × Nat)) : rs.length ≤ (encodeWin rs).length := by
  induction rs with
  | nil => simp
  | cons x rest ih =>
    obtain ⟨r, pad⟩ := x
    cases rest with
    | nil => simp [encodeWin_single, le32_length]; omega
    | cons y rest' =>
      rw [encodeWin_cons2]
      simp [le32_length] at ih ⊢; omega

theorem win_decode_encode (rs : List (WinRec × Nat)) (hne : rs ≠ [])
    (h : ∀ x ∈ rs, x.1.action < 2 ^ 32 ∧ 12 + 2 * x.1.name.length + x.2 < 2 ^ 32 ∧ (∀ u ∈ x.1.name, u < 65536)) :
    decodeWin (encodeWin rs) (encodeWin rs).length = rs.map Prod.fst := by
  have := encodeWin_length rs
  exact parseWin_encode rs hne h _ (by omega)

end WD.ProofsDec
