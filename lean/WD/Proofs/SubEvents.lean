/- helper lemmas and the proofs behind WD.Props.C14 -/
import WD.Model.SubEvents
namespace WD.Proofs
open WD

/-! ### generic list / path helpers -/

theorem pjoin_good (root n : PStr) (h1 : root ≠ []) (h2 : root.getLast? ≠ some '/') :
    pjoin root n = root ++ '/' :: n := by
  simp [pjoin, h1, h2]

theorem getLast?_mem {α} : ∀ (l : List α) (a : α), l.getLast? = some a → a ∈ l
  | [], a, h => by simp at h
  | [b], a, h => by simp at h; simp [h]
  | b :: c :: l, a, h => by
    rw [List.getLast?_cons_cons] at h
    exact List.mem_cons_of_mem _ (getLast?_mem (c :: l) a h)

theorem good_step (root n : PStr) (hn : n ≠ []) (hs : '/' ∉ n) :
    (root ++ '/' :: n) ≠ [] ∧ (root ++ '/' :: n).getLast? ≠ some '/' := by
  refine ⟨by simp, ?_⟩
  intro h
  cases n with
  | nil => exact hn rfl
  | cons a n =>
    rw [List.getLast?_append, List.getLast?_cons_cons] at h
    cases h' : (a :: n).getLast? with
    | none => simp at h'
    | some c =>
      rw [h'] at h
      simp at h
      subst h
      exact hs (getLast?_mem _ _ h')

/-- a name entry is ok: non-empty, no separator -/
def nameOk (n : PStr) : Prop := n ≠ [] ∧ '/' ∉ n

theorem nameOk_of_bool (n : PStr) (h : (n != [] && !n.contains '/') = true) : nameOk n := by
  simpa [nameOk] using h

theorem namesOk_file {n : PStr} {rest : List Node} (h : namesOk (.file n :: rest) = true) :
    nameOk n ∧ namesOk rest = true := by
  rw [namesOk, Bool.and_eq_true] at h
  exact ⟨nameOk_of_bool n h.1, h.2⟩

theorem namesOk_dir {n : PStr} {ch rest : List Node} (h : namesOk (.dir n ch :: rest) = true) :
    nameOk n ∧ namesOk ch = true ∧ namesOk rest = true := by
  rw [namesOk, Bool.and_eq_true, Bool.and_eq_true] at h
  exact ⟨nameOk_of_bool n h.1.1, h.1.2, h.2⟩

theorem namesOk_mem : ∀ (ch : List Node), namesOk ch = true → ∀ c ∈ ch, nameOk c.name
  | [], _, c, hc => by simp at hc
  | .file n :: rest, h, c, hc => by
    have ⟨h1, h2⟩ := namesOk_file h
    rcases List.mem_cons.1 hc with rfl | hc
    · exact h1
    · exact namesOk_mem rest h2 c hc
  | .dir n ch :: rest, h, c, hc => by
    have ⟨h1, _, h2⟩ := namesOk_dir h
    rcases List.mem_cons.1 hc with rfl | hc
    · exact h1
    · exact namesOk_mem rest h2 c hc

/-- splitting an append at a distinguished element -/
theorem split_append {α} {A B l1 l2 : List α} {x : α} (h : A ++ B = l1 ++ x :: l2) :
    (∃ r, A = l1 ++ x :: r ∧ l2 = r ++ B) ∨ (∃ l, l1 = A ++ l ∧ B = l ++ x :: l2) := by
  rcases List.append_eq_append_iff.1 h with ⟨as, h1, h2⟩ | ⟨bs, h1, h2⟩
  · exact Or.inr ⟨as, h1, h2⟩
  · cases bs with
    | nil =>
      refine Or.inr ⟨[], by simpa using h1.symm, by simpa using h2.symm⟩
    | cons b bs =>
      simp at h2
      obtain ⟨rfl, rfl⟩ := h2
      exact Or.inl ⟨bs, h1, rfl⟩

/-- the decomposition of a path at its last separator is unique -/
theorem last_sep_unique {a b s t : PStr} (h : a ++ '/' :: s = b ++ '/' :: t) (hs : '/' ∉ s) (ht : '/' ∉ t) :
    a = b ∧ s = t := by
  rcases List.append_eq_append_iff.1 h with ⟨as, h1, h2⟩ | ⟨bs, h1, h2⟩
  · cases as with
    | nil => simp at h1 h2; exact ⟨h1.symm, h2⟩
    | cons c as =>
      simp at h2
      obtain ⟨rfl, rfl⟩ := h2
      exact absurd (by simp) hs
  · cases bs with
    | nil => simp at h1 h2; exact ⟨h1, h2.symm⟩
    | cons c bs =>
      simp at h2
      obtain ⟨rfl, rfl⟩ := h2
      exact absurd (by simp) ht

/-- first component of a path is determined when names carry no separator -/
theorem first_comp_unique : ∀ (a b s t : PStr), a ++ s = b ++ t → '/' ∉ a → '/' ∉ b →
    (s = [] ∨ ∃ s', s = '/' :: s') → (t = [] ∨ ∃ t', t = '/' :: t') → a = b
  | [], [], _, _, _, _, _, _, _ => rfl
  | [], y :: b, s, t, h, _, hb, hs, _ => by
    rcases hs with rfl | ⟨s', rfl⟩
    · simp at h
    · simp at h
      exact absurd (List.mem_cons.2 (Or.inl h.1)) hb
  | x :: a, [], s, t, h, ha, _, _, ht => by
    rcases ht with rfl | ⟨t', rfl⟩
    · simp at h
    · simp at h
      exact absurd (by simp [h.1]) ha
  | x :: a, y :: b, s, t, h, ha, hb, hs, ht => by
    simp at h
    have := first_comp_unique a b s t h.2 (fun m => ha (List.mem_cons_of_mem _ m))
      (fun m => hb (List.mem_cons_of_mem _ m)) hs ht
    rw [h.1, this]

/-! ### rekey -/

theorem rekey_under (old new rel : PStr) : rekeyPath old new (old ++ '/' :: rel) = new ++ '/' :: rel := by
  simp [rekeyPath]

/-! ### events = map over the relative walk -/

theorem walkBelow_gen (mk : Bool → PStr → SubEv) (root : PStr) :
    ∀ (ch : List Node) (pre : PStr), namesOk ch = true → root ++ pre ≠ [] →
      (root ++ pre).getLast? ≠ some '/' →
      walkBelow mk (root ++ pre) ch = (walkSufBelow pre ch).map (fun x => mk x.2 (root ++ x.1))
  | [], pre, _, _, _ => by simp [walkBelow, walkSufBelow]
  | .file n :: rest, pre, hn, h1, h2 => by
    rw [walkBelow, walkSufBelow]
    exact walkBelow_gen mk root rest pre (namesOk_file hn).2 h1 h2
  | .dir n ch :: rest, pre, hn, h1, h2 => by
    have ⟨hnm, hch, hrest⟩ := namesOk_dir hn
    rw [walkBelow, walkSufBelow, walkEvents, walkSuf, pjoin_good _ _ h1 h2]
    have hg := good_step (root ++ pre) n hnm.1 hnm.2
    have e : root ++ pre ++ '/' :: n = root ++ (pre ++ '/' :: n) := by simp
    rw [e] at hg ⊢
    rw [walkBelow_gen mk root ch (pre ++ '/' :: n) hch hg.1 hg.2,
      walkBelow_gen mk root rest pre hrest h1 h2]
    simp [List.map_append, List.map_map, Function.comp_def, pjoin_good _ _ hg.1 hg.2]

theorem walkEvents_gen (mk : Bool → PStr → SubEv) (root pre : PStr) (ch : List Node)
    (hn : namesOk ch = true) (h1 : root ++ pre ≠ []) (h2 : (root ++ pre).getLast? ≠ some '/') :
    walkEvents mk (root ++ pre) ch = (walkSuf pre ch).map (fun x => mk x.2 (root ++ x.1)) := by
  rw [walkEvents, walkSuf, walkBelow_gen mk root ch pre hn h1 h2]
  simp [List.map_append, List.map_map, Function.comp_def, pjoin_good _ _ h1 h2]

theorem moved_paths (src dst : PStr) (ch : List Node) (h1 : dst ≠ []) (h2 : dst.getLast? ≠ some '/')
    (hn : namesOk ch = true) :
    subMovedEvents src dst ch =
      (walkSuf [] ch).map (fun x => ⟨x.2, if src = [] then [] else src ++ x.1, dst ++ x.1⟩) := by
  have := walkEvents_gen (mkMoved src dst) dst [] ch hn (by simpa using h1) (by simpa using h2)
  rw [List.append_nil] at this
  rw [subMovedEvents, this]
  apply List.map_congr_left
  intro x _
  simp [mkMoved, rewritePrefix]

theorem created_paths (dir : PStr) (ch : List Node) (h1 : dir ≠ []) (h2 : dir.getLast? ≠ some '/')
    (hn : namesOk ch = true) :
    subCreatedEvents dir ch = (walkSuf [] ch).map (fun x => ⟨x.2, dir ++ x.1, []⟩) := by
  have := walkEvents_gen mkCreated dir [] ch hn (by simpa using h1) (by simpa using h2)
  rw [List.append_nil] at this
  rw [subCreatedEvents, this]
  apply List.map_congr_left
  intro x _
  simp [mkCreated]

theorem walkSuf_perm_aux : ∀ (ch : List Node) (pre : PStr), (walkSuf pre ch).Perm (descSuf pre ch)
  | [], pre => by simp [walkSuf, walkSufBelow, descSuf]
  | .file n :: rest, pre => by
    have ih := walkSuf_perm_aux rest pre
    rw [walkSuf] at ih ⊢
    rw [walkSufBelow, descSuf]
    simp only [List.filter_cons, Node.isDir, Node.name, Bool.not_false, Bool.false_eq_true, if_true,
      if_false, List.map_cons, List.append_assoc, List.cons_append] at ih ⊢
    exact List.perm_middle.trans (ih.cons _)
  | .dir n ch :: rest, pre => by
    have ih := walkSuf_perm_aux rest pre
    have ihW := walkSuf_perm_aux ch (pre ++ '/' :: n)
    rw [walkSuf] at ih ⊢
    rw [walkSufBelow, descSuf]
    simp only [List.filter_cons, Node.isDir, Node.name, Bool.not_true, Bool.false_eq_true, if_true,
      if_false, List.map_cons, List.append_assoc, List.cons_append] at ih ⊢
    refine List.Perm.cons _ ?_
    refine (List.Perm.append_left _ (List.perm_append_comm_assoc _ _ _)).trans ?_
    refine (List.perm_append_comm_assoc _ _ _).trans ?_
    exact List.Perm.append ihW ih

theorem walkSuf_perm (pre : PStr) (ch : List Node) : (walkSuf pre ch).Perm (descSuf pre ch) :=
  walkSuf_perm_aux ch pre

/-! ### distinct descendants have distinct relative paths -/

theorem su_file {n : PStr} {rest : List Node} (h : siblingsUnique (.file n :: rest) = true) :
    (∀ c ∈ rest, c.name ≠ n) ∧ siblingsUnique rest = true := by
  simpa [siblingsUnique] using h

theorem su_dir {n : PStr} {ch rest : List Node} (h : siblingsUnique (.dir n ch :: rest) = true) :
    (∀ c ∈ rest, c.name ≠ n) ∧ siblingsUnique ch = true ∧ siblingsUnique rest = true := by
  simpa [siblingsUnique, and_assoc] using h

/-- every entry of `descSuf pre ch` is `pre/c` or lies below `pre/c/` for an entry `c` of `ch` -/
theorem desc_form : ∀ (ch : List Node) (pre : PStr) (e : PStr × Bool), e ∈ descSuf pre ch →
    ∃ c ∈ ch, ∃ t, e.1 = pre ++ '/' :: (c.name ++ t) ∧ (t = [] ∨ ∃ t', t = '/' :: t')
  | [], pre, e, h => by simp [descSuf] at h
  | .file n :: rest, pre, e, h => by
    rw [descSuf] at h
    rcases List.mem_cons.1 h with rfl | h
    · exact ⟨.file n, List.mem_cons_self, [], by simp [Node.name], Or.inl rfl⟩
    · obtain ⟨c, hc, t, h1, h2⟩ := desc_form rest pre e h
      exact ⟨c, List.mem_cons_of_mem _ hc, t, h1, h2⟩
  | .dir n ch :: rest, pre, e, h => by
    rw [descSuf] at h
    rcases List.mem_cons.1 h with rfl | h
    · exact ⟨.dir n ch, List.mem_cons_self, [], by simp [Node.name], Or.inl rfl⟩
    · rcases List.mem_append.1 h with h | h
      · obtain ⟨c, _, t, h1, _⟩ := desc_form ch (pre ++ '/' :: n) e h
        exact ⟨.dir n ch, List.mem_cons_self, '/' :: (c.name ++ t), by simp [Node.name, h1],
          Or.inr ⟨_, rfl⟩⟩
      · obtain ⟨c, hc, t, h1, h2⟩ := desc_form rest pre e h
        exact ⟨c, List.mem_cons_of_mem _ hc, t, h1, h2⟩

theorem notin_rest {rest : List Node} {pre n : PStr} (hrest : namesOk rest = true) (hnm : nameOk n)
    (hne : ∀ c ∈ rest, c.name ≠ n) (e : PStr × Bool) (he : e ∈ descSuf pre rest) (s : PStr)
    (hs : s = [] ∨ ∃ s', s = '/' :: s') : e.1 ≠ pre ++ '/' :: (n ++ s) := by
  intro heq
  obtain ⟨c, hc, t, h1, h2⟩ := desc_form rest pre e he
  rw [h1] at heq
  have heq' : c.name ++ t = n ++ s := by simpa using heq
  exact hne c hc (first_comp_unique _ _ _ _ heq' (namesOk_mem rest hrest c hc).2 hnm.2 h2 hs)

theorem descSuf_nodup_aux : ∀ (ch : List Node) (pre : PStr), namesOk ch = true →
    siblingsUnique ch = true → ((descSuf pre ch).map Prod.fst).Nodup
  | [], pre, _, _ => by simp [descSuf]
  | .file n :: rest, pre, hn, hu => by
    have ⟨hnm, hrest⟩ := namesOk_file hn
    have ⟨hne, hur⟩ := su_file hu
    rw [descSuf, List.map_cons, List.nodup_cons]
    refine ⟨?_, descSuf_nodup_aux rest pre hrest hur⟩
    intro hm
    obtain ⟨e, he, heq⟩ := List.mem_map.1 hm
    exact notin_rest hrest hnm hne e he [] (Or.inl rfl) (by simpa using heq)
  | .dir n ch :: rest, pre, hn, hu => by
    have ⟨hnm, hch, hrest⟩ := namesOk_dir hn
    have ⟨hne, huc, hur⟩ := su_dir hu
    rw [descSuf, List.map_cons, List.nodup_cons, List.map_append, List.nodup_append]
    refine ⟨?_, descSuf_nodup_aux ch _ hch huc, descSuf_nodup_aux rest pre hrest hur, ?_⟩
    · intro hm
      rcases List.mem_append.1 hm with hm | hm
      · obtain ⟨e, he, heq⟩ := List.mem_map.1 hm
        obtain ⟨c, _, t, h1, _⟩ := desc_form ch _ e he
        rw [h1] at heq
        exact absurd (List.append_right_eq_self.1 heq) (by simp)
      · obtain ⟨e, he, heq⟩ := List.mem_map.1 hm
        exact notin_rest hrest hnm hne e he [] (Or.inl rfl) (by simpa using heq)
    · intro a ha b hb hab
      obtain ⟨e1, he1, rfl⟩ := List.mem_map.1 ha
      obtain ⟨e2, he2, rfl⟩ := List.mem_map.1 hb
      obtain ⟨c, _, t, h1, _⟩ := desc_form ch _ e1 he1
      refine notin_rest hrest hnm hne e2 he2 ('/' :: (c.name ++ t)) (Or.inr ⟨_, rfl⟩) ?_
      rw [← hab, h1]
      simp

theorem descSuf_nodup (pre : PStr) (ch : List Node) (hn : namesOk ch = true) (hu : siblingsUnique ch = true) :
    ((descSuf pre ch).map Prod.fst).Nodup :=
  descSuf_nodup_aux ch pre hn hu

/-! ### parents come first -/

/-- the entries one `os.walk` level contributes by itself -/
def lvl (pre : PStr) (ch : List Node) : List (PStr × Bool) :=
  (ch.filter Node.isDir).map (fun c => (pre ++ '/' :: c.name, true)) ++
  (ch.filter (fun c => !c.isDir)).map (fun c => (pre ++ '/' :: c.name, false))

theorem walkSuf_lvl (pre : PStr) (ch : List Node) : walkSuf pre ch = lvl pre ch ++ walkSufBelow pre ch := by
  rw [walkSuf, lvl]

theorem lvl_mem {pre : PStr} {ch : List Node} {x : PStr × Bool} (h : x ∈ lvl pre ch) :
    ∃ c ∈ ch, x.1 = pre ++ '/' :: c.name := by
  rcases List.mem_append.1 h with h | h
  · obtain ⟨c, hc, rfl⟩ := List.mem_map.1 h
    exact ⟨c, (List.mem_filter.1 hc).1, rfl⟩
  · obtain ⟨c, hc, rfl⟩ := List.mem_map.1 h
    exact ⟨c, (List.mem_filter.1 hc).1, rfl⟩

theorem dir_mem_lvl {pre m : PStr} {ch ch' : List Node} (h : Node.dir m ch' ∈ ch) :
    (pre ++ '/' :: m, true) ∈ lvl pre ch :=
  List.mem_append_left _ (List.mem_map.2 ⟨.dir m ch', List.mem_filter.2 ⟨h, rfl⟩, rfl⟩)

theorem below_parents : ∀ (ch : List Node) (pre : PStr) (l1 l2 : List (PStr × Bool)) (x : PStr × Bool),
    namesOk ch = true → walkSufBelow pre ch = l1 ++ x :: l2 →
    ∀ p n : PStr, x.1 = p ++ '/' :: n → '/' ∉ n →
      (∃ m ch', Node.dir m ch' ∈ ch ∧ p = pre ++ '/' :: m) ∨ (p, true) ∈ l1
  | [], pre, l1, l2, x, _, h, _, _, _, _ => by
    rw [walkSufBelow] at h
    simp at h
  | .file k :: rest, pre, l1, l2, x, hn, h, p, n, hx, hnn => by
    rw [walkSufBelow] at h
    rcases below_parents rest pre l1 l2 x (namesOk_file hn).2 h p n hx hnn with ⟨m, ch', hm, hp⟩ | h'
    · exact Or.inl ⟨m, ch', List.mem_cons_of_mem _ hm, hp⟩
    · exact Or.inr h'
  | .dir k ch :: rest, pre, l1, l2, x, hn, h, p, n, hx, hnn => by
    have ⟨_, hch, hrest⟩ := namesOk_dir hn
    rw [walkSufBelow] at h
    rcases split_append h with ⟨r, hA, _⟩ | ⟨l, hl, hB⟩
    · rw [walkSuf_lvl] at hA
      rcases split_append hA with ⟨r', hA', _⟩ | ⟨l', hl', hB'⟩
      · refine Or.inl ⟨k, ch, List.mem_cons_self, ?_⟩
        have hxm : x ∈ lvl (pre ++ '/' :: k) ch := by rw [hA']; simp
        obtain ⟨c, hc, hc'⟩ := lvl_mem hxm
        rw [hx] at hc'
        exact (last_sep_unique hc' hnn (namesOk_mem ch hch c hc).2).1
      · refine Or.inr ?_
        rcases below_parents ch (pre ++ '/' :: k) l' r x hch hB' p n hx hnn with ⟨m, ch', hm, hp⟩ | h'
        · rw [hl', hp]
          exact List.mem_append_left _ (dir_mem_lvl hm)
        · rw [hl']
          exact List.mem_append_right _ h'
    · rcases below_parents rest pre l l2 x hrest hB p n hx hnn with ⟨m, ch', hm, hp⟩ | h'
      · exact Or.inl ⟨m, ch', List.mem_cons_of_mem _ hm, hp⟩
      · refine Or.inr ?_
        rw [hl]
        exact List.mem_append_right _ h'

theorem parents_first (ch : List Node) (hn : namesOk ch = true) (l1 l2 : List (PStr × Bool)) (x : PStr × Bool)
    (h : walkSuf [] ch = l1 ++ x :: l2) (p n : PStr) (hx : x.1 = p ++ '/' :: n) (hp : p ≠ [])
    (hnn : '/' ∉ n) : (p, true) ∈ l1 := by
  rw [walkSuf_lvl] at h
  rcases split_append h with ⟨r, hA, _⟩ | ⟨l, hl, hB⟩
  · have hxm : x ∈ lvl [] ch := by rw [hA]; simp
    obtain ⟨c, hc, hc'⟩ := lvl_mem hxm
    rw [hx] at hc'
    exact absurd (last_sep_unique hc' hnn (namesOk_mem ch hn c hc).2).1 hp
  · rcases below_parents ch [] l l2 x hn hB p n hx hnn with ⟨m, ch', hm, hp'⟩ | h'
    · rw [hl, hp']
      exact List.mem_append_left _ (dir_mem_lvl hm)
    · rw [hl]
      exact List.mem_append_right _ h'

end WD.Proofs
