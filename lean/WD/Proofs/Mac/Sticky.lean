/- FSEvents: flags that stick to an item from its earlier events (created, modified, inode-meta) may re-appear on any
   later event of the item; whatever re-appears, the delivered stream still replays to the right tree -/
import WD.Proofs.Mac.Cut
set_option linter.unusedSimpArgs false
namespace WD.Mac
open WD WD.Pipe WD.Win

/- ---------------- what a spurious created event does to the replay ---------------- -/

theorem eraseSub_setEntry (t : Tree) (p : P) (d : Bool) : eraseSub (setEntry t p d) p = eraseSub t p := by
  simp only [eraseSub, setEntry, List.filter_append, List.filter_filter]
  have h1 : List.filter (fun x => !(x.1 == p || isUnder p x.1)) [(p, d)] = [] := by simp
  rw [h1, List.append_nil]
  congr 1; funext x
  by_cases hx : x.1 = p <;> simp [hx]

theorem setEntry_setEntry (t : Tree) (q : P) (d d' : Bool) : setEntry (setEntry t q d') q d = setEntry t q d := by
  simp only [setEntry, List.filter_append, List.filter_filter]
  have h1 : List.filter (fun x => x.1 != q) [(q, d')] = [] := by simp
  rw [h1, List.append_nil]
  congr 2; funext x
  by_cases hx : x.1 = q <;> simp [hx]

theorem setEntry_present {t : Tree} {p : P} {d : Bool} (hm : (p, d) ∈ t) (hu : ∀ y ∈ t, y.1 = p → y = (p, d)) :
    sameTree (setEntry t p d) t := by
  intro y
  rw [mem_setEntry]
  constructor
  · rintro (⟨h, _⟩ | h)
    · exact h
    · rw [h]; exact hm
  · intro h
    by_cases hy : y.1 = p
    · exact Or.inr (hu y h hy)
    · exact Or.inl ⟨h, hy⟩

theorem replayK_cons (t : Tree) (k : Key) (ks : List Key) : replayK t (k :: ks) = replayK (applyKey t k) ks := rfl

theorem K_cr_del (t : Tree) (p : P) (d : Bool) (rest : List Key) :
    replayK t (.cr p d :: .del p :: rest) = replayK t (.del p :: rest) := by
  simp only [replayK_cons, applyKey, eraseSub_setEntry]

theorem K_cr_mv (t : Tree) (p q : P) (d d' : Bool) (hp : p ≠ []) (rest : List Key) :
    replayK t (.cr p d :: .mv p q d' :: rest) = replayK t (.mv p q d' :: rest) := by
  simp only [replayK_cons, applyKey, hp, if_false, eraseSub_setEntry]

theorem K_cr_cr (t : Tree) (q : P) (d d' : Bool) (rest : List Key) :
    replayK t (.cr q d' :: .cr q d :: rest) = replayK t (.cr q d :: rest) := by
  simp only [replayK_cons, applyKey, setEntry_setEntry]

theorem sameTree_replayK {a b : Tree} (h : sameTree a b) (ks : List Key) : sameTree (replayK a ks) (replayK b ks) := by
  induction ks generalizing a b with
  | nil => exact h
  | cons k rest ih =>
    apply ih
    cases k with
    | cr p d => exact sameTree_setEntry h _ _
    | del p => exact sameTree_eraseSub h _
    | mv p q d =>
      simp only [applyKey]
      by_cases hp : p = [] <;> by_cases hq : q = [] <;> simp only [hp, hq, if_true, if_false]
      · exact h
      · exact sameTree_setEntry h _ _
      · exact sameTree_eraseSub h _
      · exact sameTree_setEntry (sameTree_eraseSub h _) _ _

theorem treeW_unique {fs : FS} (hwf : fs.WF) {p : P} {x : Ent} (hx : fs.find? p = some x) (hw : inW p = true) :
    (p, x.isDir) ∈ treeW fs ∧ ∀ y ∈ treeW fs, y.1 = p → y = (p, x.isDir) := by
  have hem := FS.find?_some hx
  constructor
  · exact mem_treeW.mpr ⟨x, hem.1, hem.2, rfl, hw⟩
  · intro y hy hyp
    obtain ⟨z, hz, h1, h2, _⟩ := mem_treeW.mp hy
    have : z = x := hwf.path_inj hz hem.1 (h1.trans (hyp.trans hem.2.symm))
    subst this
    exact Prod.ext hyp h2.symm

@[simp] theorem key_evCreated (e : MEv) : (evCreated e).filterMap key = [.cr e.path e.isDir] := by
  cases h : e.isDir <;> simp [evCreated, createdCls, h, List.filterMap_cons]
@[simp] theorem key_evRemoved (e : MEv) : (evRemoved e).filterMap key = [.del e.path] := by
  simp [evRemoved, keys_evDeleted]
@[simp] theorem key_evModified (e : MEv) : (evModified e).filterMap key = [] := by
  simp only [evModified]; split
  · cases e.isDir <;> simp [List.filterMap_cons]
  · rfl

end WD.Mac

namespace WD.Mac
open WD WD.Pipe WD.Win

/-- the conclusion of the sticky theorems about one callback -/
def StickyOK (fs : FS) (op : Op) (st : MSt) (r : MSt × List PEv) : Prop :=
  sameTree (replay (treeW fs) r.2) (treeW (fsAfter fs op)) ∧ r.1.stopped = st.stopped ∧ ViewOK r.1 (fsAfter fs op).nextIno

theorem stickyOK_of_keys {fs : FS} {op : Op} {st : MSt} {r : MSt × List PEv} (hwf : fs.WF) (hv : winValid fs op = true)
    (hroot : op ≠ .rmdir ["W"]) (hk : sameTree (replayK (treeW fs) (r.2.filterMap key)) (replayK (treeW fs) ((macContract fs op).1.filterMap key)))
    (hs : r.1.stopped = st.stopped) (hvw : ViewOK r.1 (fsAfter fs op).nextIno) : StickyOK fs op st r := by
  refine ⟨?_, hs, hvw⟩
  have hc := mac_replay_contract hwf op hv hroot
  rw [replay_eq_replayK] at hc ⊢
  exact sameTree_trans hk hc

theorem stickAll_nil (ss : List Sticky) : stickAll [] ss = [] := by simp [stickAll]
theorem stickAll_one (e : MEv) (s : Sticky) : stickAll [e] [s] = [e.stick s] := rfl

theorem sticky_create {fs : FS} (hwf : fs.WF) (st : MSt) (hst : ViewOK st fs.nextIno) (p : P) (d : Bool)
    (op : Op) (hop : op = .create p ∧ d = false ∨ op = .mkdir p ∧ d = true) (hv : winValid fs op = true)
    (ss : List Sticky) (hlen : ss.length = (macEvents fs op).length) :
    StickyOK fs op st (emitLoop (fsAfter fs op) ss.length st (stickAll (macEvents fs op) ss)) := by
  have hroot : op ≠ .rmdir ["W"] := by rcases hop with ⟨h, _⟩ | ⟨h, _⟩ <;> (rw [h]; intro hh; cases hh)
  have hn : (fsAfter fs op).nextIno = fs.nextIno + 1 := by rcases hop with ⟨h, _⟩ | ⟨h, _⟩ <;> (rw [h]; rfl)
  have hev : macEvents fs op = if inW p then [{ path := p, ino := fs.nextIno, isDir := d, created := true }] else [] := by
    rcases hop with ⟨h, hd⟩ | ⟨h, hd⟩ <;> (rw [h, hd]; rfl)
  have hcon : (macContract fs op).1.filterMap key = if inW p then [.cr p d] else [] := by
    rcases hop with ⟨h, hd⟩ | ⟨h, hd⟩ <;> (rw [h, hd]; cases hw : inW p <;> simp [macContract, hw, List.filterMap_cons])
  rw [hev] at hlen ⊢
  cases hw : inW p with
  | false =>
    simp only [hw, Bool.false_eq_true, if_false, List.length_nil, List.length_eq_zero_iff] at hlen
    subst hlen
    apply stickyOK_of_keys hwf hv hroot
    · simp [hw, emitLoop, stickAll, hcon, sameTree_refl]
    · simp [emitLoop, stickAll]
    · simp [emitLoop, stickAll, hw, hn]; exact hst.mono (by omega)
  | true =>
    simp only [hw, if_true, List.length_singleton] at hlen
    obtain ⟨s, rfl⟩ := List.length_eq_one_iff.mp hlen
    have hnm : ¬ fs.nextIno ∈ st.fsView := fun h => Nat.lt_irrefl _ (hst _ h)
    apply stickyOK_of_keys hwf hv hroot
    · simp [hw, stickAll, MEv.stick, emitLoop, emitOne, hnm, hcon, List.filterMap_append, sameTree_refl]
    · simp [hw, stickAll, MEv.stick, emitLoop, emitOne, hnm]
    · simp [hw, stickAll, MEv.stick, emitLoop, emitOne, hnm, hn]
      exact ViewOK.add (hst.mono (Nat.le_succ _)) (Nat.lt_succ_self _)

end WD.Mac

namespace WD.Mac
open WD WD.Pipe WD.Win

/-- one event about an item that is neither renamed nor the root, with sticky flags: what it contributes to the replay -/
theorem single_keys (fsx : FS) (st : MSt) (e : MEv) (s : Sticky) (hc : e.created = false) (hr : e.renamed = false)
    (hx : e.rootChanged = false) (n : Nat) :
    ((emitLoop fsx (n + 1) st [e.stick s]).2.filterMap key =
      (if s.created && !st.fsView.contains e.ino then [.cr e.path e.isDir] else []) ++ (if e.removed then [.del e.path] else [])) ∧
    (emitLoop fsx (n + 1) st [e.stick s]).1.stopped = st.stopped ∧
    (∀ m, ViewOK st m → e.ino < m → ViewOK (emitLoop fsx (n + 1) st [e.stick s]).1 m) := by
  have hl0 : ∀ st', emitLoop fsx n st' [] = (st', []) := by intro st'; cases n <;> rfl
  refine ⟨?_, ?_, ?_⟩
  · by_cases hh : e.ino ∈ st.fsView <;> cases hsc : s.created <;> cases hrem : e.removed <;>
      simp [emitLoop, emitOne, MEv.stick, hc, hr, hx, hsc, hrem, hh, hl0, List.filterMap_append]
  · cases hsc : s.created <;> cases hrem : e.removed <;>
      simp [emitLoop, emitOne, MEv.stick, hc, hr, hx, hsc, hrem, hl0] <;> (try split) <;> simp
  · intro m hm hi
    cases hsc : s.created <;> cases hrem : e.removed <;>
      simp [emitLoop, emitOne, MEv.stick, hc, hr, hx, hsc, hrem, hl0] <;>
      first | exact (hm.add hi).discard | exact hm.add hi

theorem sticky_item {fs : FS} (hwf : fs.WF) (st : MSt) (hst : ViewOK st fs.nextIno) (op : Op) (p : P) (x : Ent)
    (hxp : fs.find? p = some x) (hw : inW p = true) (e : MEv) (hev : macEvents fs op = [e])
    (he : e.path = p ∧ e.ino = x.ino ∧ e.isDir = x.isDir ∧ e.created = false ∧ e.renamed = false ∧ e.rootChanged = false)
    (hcon : (macContract fs op).1.filterMap key = if e.removed then [.del p] else [])
    (hn : (fsAfter fs op).nextIno = fs.nextIno)
    (hv : winValid fs op = true) (hroot : op ≠ .rmdir ["W"])
    (ss : List Sticky) (hlen : ss.length = (macEvents fs op).length) :
    StickyOK fs op st (emitLoop (fsAfter fs op) ss.length st (stickAll (macEvents fs op) ss)) := by
  rw [hev] at hlen ⊢
  obtain ⟨s, rfl⟩ := List.length_eq_one_iff.mp hlen
  obtain ⟨hp, hi, hd, hc, hr, hx⟩ := he
  obtain ⟨hk, hs, hvw⟩ := single_keys (fsAfter fs op) st e s hc hr hx 0
  rw [stickAll_one]
  apply stickyOK_of_keys hwf hv hroot
  · simp only [List.length_singleton, Nat.zero_add] at hk ⊢
    rw [hk, hcon, hp, hd]
    obtain ⟨hmem, huniq⟩ := treeW_unique hwf hxp hw
    cases hrem : e.removed <;> cases hcs : (s.created && !st.fsView.contains e.ino)
    · simp [sameTree_refl]
    · simp only [if_true, Bool.false_eq_true, if_false, List.append_nil, replayK_cons, applyKey]
      exact setEntry_present hmem huniq
    · simp [sameTree_refl]
    · simp only [if_true, List.singleton_append, K_cr_del]
      exact sameTree_refl _
  · exact hs
  · rw [hn]; exact hvw _ hst (by rw [hi]; exact entry_ino_lt hwf hxp)

end WD.Mac

namespace WD.Mac
open WD WD.Pipe WD.Win

theorem emitOne_norename (fsx : FS) (st : MSt) (e : MEv) (rest : List MEv) (hr : e.renamed = false) :
    emitOne fsx st e rest = ((emitOne fsx st e []).1, (emitOne fsx st e []).2.1, rest) := by
  simp only [emitOne, hr, Bool.false_eq_true, if_false]
  split <;> split <;> rfl

theorem loop_cons_norename (fsx : FS) (n : Nat) (st : MSt) (e : MEv) (rest : List MEv) (hr : e.renamed = false) :
    emitLoop fsx (n + 1) st (e :: rest) =
      ((emitLoop fsx n (emitLoop fsx 1 st [e]).1 rest).1, (emitLoop fsx 1 st [e]).2 ++ (emitLoop fsx n (emitLoop fsx 1 st [e]).1 rest).2) := by
  simp only [emitLoop]
  rw [emitOne_norename fsx st e rest hr]
  simp

/-- a batch of removals with sticky flags: for the replay it is the plain list of deletions -/
theorem rem_list (fsx : FS) (l : List (P × Ent)) (ss : List Sticky) (hlen : ss.length = l.length) (n : Nat) (hn : l.length ≤ n)
    (st : MSt) (m : Nat) (hst : ViewOK st m) (hl : ∀ y ∈ l, y.2.ino < m) :
    (∀ t, replayK t ((emitLoop fsx n st (stickAll (l.map (fun y => remEv y.1 y.2)) ss)).2.filterMap key) =
          replayK t (l.map (fun y => Key.del y.1))) ∧
    (emitLoop fsx n st (stickAll (l.map (fun y => remEv y.1 y.2)) ss)).1.stopped = st.stopped ∧
    ViewOK (emitLoop fsx n st (stickAll (l.map (fun y => remEv y.1 y.2)) ss)).1 m := by
  induction l generalizing ss n st with
  | nil => cases n <;> simp [stickAll, emitLoop, hst]
  | cons y rest ih =>
    cases ss with
    | nil => simp at hlen
    | cons s ss' =>
      cases n with
      | zero => simp at hn
      | succ n =>
        simp only [List.length_cons, Nat.add_right_cancel_iff] at hlen
        have hcons : stickAll ((y :: rest).map (fun y => remEv y.1 y.2)) (s :: ss') =
            (remEv y.1 y.2).stick s :: stickAll (rest.map (fun y => remEv y.1 y.2)) ss' := rfl
        have hren : ((remEv y.1 y.2).stick s).renamed = false := rfl
        obtain ⟨hk, hs1, hv1⟩ := single_keys fsx st (remEv y.1 y.2) s rfl rfl rfl 0
        simp only [Nat.zero_add] at hk hs1 hv1
        have hst1 := hv1 m hst (hl y (List.mem_cons_self ..))
        obtain ⟨ihk, ihs, ihv⟩ := ih ss' hlen n (by simp at hn; omega) _ hst1 (fun z hz => hl z (List.mem_cons_of_mem _ hz))
        rw [hcons, loop_cons_norename fsx n st _ _ hren]
        refine ⟨?_, by rw [ihs]; exact hs1, ihv⟩
        intro t
        rw [List.filterMap_append, hk]
        have hrm : (remEv y.1 y.2).removed = true := rfl
        have hpth : (remEv y.1 y.2).path = y.1 := rfl
        simp only [hrm, if_true, hpth, List.map_cons]
        cases hcs : (s.created && !st.fsView.contains (remEv y.1 y.2).ino)
        · simp only [Bool.false_eq_true, if_false, List.nil_append, List.singleton_append]
          rw [replayK_cons, ihk, ← replayK_cons]
        · simp only [if_true, List.singleton_append, List.cons_append, List.nil_append, K_cr_del]
          rw [replayK_cons, ihk, ← replayK_cons]

end WD.Mac

namespace WD.Mac
open WD WD.Pipe WD.Win

/-- general facts about one iteration: the state only learns inodes of the events at hand; only the root flag stops -/
theorem emitOne_facts (fsx : FS) (st : MSt) (e : MEv) (rest : List MEv) (m : Nat) (hst : ViewOK st m) (he : e.ino < m) :
    ViewOK (emitOne fsx st e rest).1 m ∧ (e.rootChanged = false → (emitOne fsx st e rest).1.stopped = st.stopped) ∧
    (∀ d ∈ (emitOne fsx st e rest).2.2, d ∈ rest) := by
  have hv0 : ViewOK ({ fsView := [], stopped := true } : MSt) m := fun _ h => by cases h
  have hadd := hst.add he
  simp only [emitOne]
  by_cases hcr : (e.created && e.removed) = true
  · simp only [hcr, if_true]
    by_cases hx : e.rootChanged = true
    · simp [hx, hv0]
    · simp [hx]; exact hadd.discard
  · simp only [hcr, Bool.false_eq_true, if_false]
    by_cases hren : e.renamed = true
    · simp only [hren, if_true]
      cases hf : findDst e rest with
      | some d =>
        have hdm : d ∈ rest := List.mem_of_find?_eq_some hf
        have hers : ∀ z ∈ rest.erase d, z ∈ rest := fun z hz => List.mem_of_mem_erase hz
        simp only
        by_cases hx : e.rootChanged = true
        · simp [hx, hv0]; exact hers
        · simp only [hx, Bool.false_eq_true, if_false]
          refine ⟨?_, fun _ => by split <;> split <;> simp, hers⟩
          split <;> split <;> first | exact hadd | exact hadd.discard | exact hadd.discard.discard
      | none =>
        simp only
        by_cases hex : existsNow fsx e = true
        · simp only [hex, if_true]
          by_cases hx : e.rootChanged = true
          · simp [hx, hv0]
          · simp only [hx, Bool.false_eq_true, if_false]
            refine ⟨?_, fun _ => by split <;> simp, fun _ h => h⟩
            split <;> first | exact hadd | exact hadd.discard
        · simp only [hex, Bool.false_eq_true, if_false]
          exact ⟨hadd.discard, fun _ => rfl, fun _ h => h⟩
    · simp only [hren, Bool.false_eq_true, if_false]
      by_cases hx : e.rootChanged = true
      · simp [hx, hv0]
      · simp only [hx, Bool.false_eq_true, if_false]
        refine ⟨?_, fun _ => by split <;> simp, fun _ h => h⟩
        split <;> first | exact hadd | exact hadd.discard

theorem loop_facts (fsx : FS) (m : Nat) (n : Nat) (st : MSt) (evs : List MEv) (hst : ViewOK st m) (he : ∀ e ∈ evs, e.ino < m) :
    ViewOK (emitLoop fsx n st evs).1 m ∧ ((∀ e ∈ evs, e.rootChanged = false) → (emitLoop fsx n st evs).1.stopped = st.stopped) := by
  induction n generalizing st evs with
  | zero => exact ⟨hst, fun _ => rfl⟩
  | succ n ih =>
    cases evs with
    | nil => exact ⟨hst, fun _ => rfl⟩
    | cons e rest =>
      obtain ⟨h1, h2, h3⟩ := emitOne_facts fsx st e rest m hst (he e (List.mem_cons_self ..))
      have ih' := ih (emitOne fsx st e rest).1 (emitOne fsx st e rest).2.2 h1 (fun d hd => he d (List.mem_cons_of_mem _ (h3 d hd)))
      simp only [emitLoop]
      refine ⟨ih'.1, fun hx => ?_⟩
      rw [ih'.2 (fun d hd => hx d (List.mem_cons_of_mem _ (h3 d hd))), h2 (hx e (List.mem_cons_self ..))]

theorem stickAll_mem {evs : List MEv} {ss : List Sticky} {e' : MEv} (h : e' ∈ stickAll evs ss) :
    ∃ e ∈ evs, e'.ino = e.ino ∧ e'.rootChanged = e.rootChanged := by
  induction evs generalizing ss with
  | nil => simp [stickAll] at h
  | cons e rest ih =>
    cases ss with
    | nil => simp [stickAll] at h
    | cons s ss' =>
      simp only [stickAll, List.zipWith_cons_cons, List.mem_cons] at h
      rcases h with h | h
      · exact ⟨e, List.mem_cons_self .., by rw [h]; rfl, by rw [h]; rfl⟩
      · obtain ⟨x, hx, h1⟩ := ih h
        exact ⟨x, List.mem_cons_of_mem _ hx, h1⟩

theorem keys_subMoved_append (a : List PEv) (b : List PEv) : (a ++ b).filterMap key = a.filterMap key ++ b.filterMap key :=
  List.filterMap_append

theorem sticky_rename {fs : FS} (hwf : fs.WF) (st : MSt) (hst : ViewOK st fs.nextIno) (p q : P)
    (hv : winValid fs (.rename p q) = true) (ss : List Sticky) (hlen : ss.length = (macEvents fs (.rename p q)).length) :
    StickyOK fs (.rename p q) st (emitLoop (fsAfter fs (.rename p q)) ss.length st (stickAll (macEvents fs (.rename p q)) ss)) := by
  have hroot : Op.rename p q ≠ .rmdir ["W"] := by intro h; cases h
  obtain ⟨e, ok⟩ := renameOK_of_valid (winValid_valid hv)
  have hn : (fs.renamed p q).nextIno = fs.nextIno := rfl
  have hsrc := find?_renamed_src ok hwf
  have hdst := find?_renamed_dst ok hwf
  have hi := entry_ino_lt hwf ok.he
  have hpn : p ≠ [] := ne_nil_of_two_le ok.hp2
  have hev : macEvents fs (.rename p q) =
      (if inW p then [{ path := p, ino := e.ino, isDir := e.isDir, renamed := true }] else []) ++
      (if inW q then [{ path := q, ino := e.ino, isDir := e.isDir, renamed := true }] else []) := by
    simp [macEvents, ok.he]
  have hcon : (macContract fs (.rename p q)).1 =
      if inW p && inW q then [mkEv (movedCls e.isDir) p q, dirMod p, dirMod q] ++ subMoved (fs.renamed p q) p q
      else if inW p then evDeleted e.isDir p
      else if inW q then [mkEv (createdCls e.isDir) q, dirMod q] ++ subCreated (fs.renamed p q) q else [] := by
    simp only [macContract, ok.he, fsAfter_rename ok]
    split <;> (try split) <;> (try split) <;> rfl
  rw [hev] at hlen ⊢
  apply stickyOK_of_keys hwf hv hroot
  · rw [hcon, fsAfter_rename ok]
    cases hp : inW p <;> cases hq : inW q
    · simp only [hp, hq, Bool.false_eq_true, if_false, List.append_nil, List.length_nil, List.length_eq_zero_iff] at hlen
      subst hlen
      simp [stickAll, emitLoop, sameTree_refl]
    · simp only [hp, hq, Bool.false_eq_true, if_false, if_true, List.nil_append, List.length_singleton] at hlen
      obtain ⟨s, rfl⟩ := List.length_eq_one_iff.mp hlen
      by_cases hh : e.ino ∈ st.fsView <;> cases hsc : s.created <;> cases hd : e.isDir <;>
        simp [stickAll, MEv.stick, emitLoop, emitOne, findDst, existsNow, hdst, rwEnt, hh, hsc, hd, createdCls,
          List.filterMap_append, List.filterMap_cons, sameTree_refl, evCreated] <;>
        (rw [K_cr_cr]; exact sameTree_refl _)
    · simp only [hp, hq, Bool.false_eq_true, if_false, if_true, List.append_nil, List.length_singleton] at hlen
      obtain ⟨s, rfl⟩ := List.length_eq_one_iff.mp hlen
      by_cases hh : e.ino ∈ st.fsView <;> cases hsc : s.created <;>
        simp [stickAll, MEv.stick, emitLoop, emitOne, findDst, existsNow, hsrc, hh, hsc, keys_evDeleted,
          List.filterMap_append, sameTree_refl, evRemoved] <;>
        (rw [K_cr_del]; exact sameTree_refl _)
    · simp only [hp, hq, if_true, List.length_append, List.length_singleton] at hlen
      have hss : ∃ s1 s2, ss = [s1, s2] := by
        rcases ss with _ | ⟨s1, _ | ⟨s2, _ | ⟨s3, r⟩⟩⟩
        · simp at hlen
        · simp at hlen
        · exact ⟨s1, s2, rfl⟩
        · simp at hlen
      obtain ⟨s1, s2, rfl⟩ := hss
      by_cases hh : e.ino ∈ st.fsView <;> cases hsc : s1.created <;> cases hd : e.isDir <;>
        simp [stickAll, MEv.stick, emitLoop, emitOne, findDst, hh, hsc, hd, movedCls,
          List.filterMap_append, List.filterMap_cons, sameTree_refl, evCreated, createdCls] <;>
        (rw [K_cr_mv _ _ _ _ _ hpn]; exact sameTree_refl _)
  · have hfacts : ∀ x ∈ ((if inW p then [({ path := p, ino := e.ino, isDir := e.isDir, renamed := true } : MEv)] else []) ++
        (if inW q then [({ path := q, ino := e.ino, isDir := e.isDir, renamed := true } : MEv)] else [])),
        x.ino = e.ino ∧ x.rootChanged = false := by
      intro x hx
      rcases List.mem_append.mp hx with h | h <;> (split at h <;> simp at h <;> (subst h; exact ⟨rfl, rfl⟩))
    refine (loop_facts _ fs.nextIno _ st _ hst ?_).2 ?_
    · intro e' he'
      obtain ⟨x, hx, h1, _⟩ := stickAll_mem he'
      rw [h1, (hfacts x hx).1]; exact hi
    · intro e' he'
      obtain ⟨x, hx, _, h2⟩ := stickAll_mem he'
      rw [h2, (hfacts x hx).2]
  · have hfacts : ∀ x ∈ ((if inW p then [({ path := p, ino := e.ino, isDir := e.isDir, renamed := true } : MEv)] else []) ++
        (if inW q then [({ path := q, ino := e.ino, isDir := e.isDir, renamed := true } : MEv)] else [])),
        x.ino = e.ino := by
      intro x hx
      rcases List.mem_append.mp hx with h | h <;> (split at h <;> simp at h <;> (subst h; rfl))
    rw [fsAfter_rename ok, hn]
    refine (loop_facts _ fs.nextIno _ st _ hst ?_).1
    intro e' he'
    obtain ⟨x, hx, h1, _⟩ := stickAll_mem he'
    rw [h1, hfacts x hx]; exact hi

end WD.Mac

namespace WD.Mac
open WD WD.Pipe WD.Win

theorem keys_flat_deleted (l : List (P × Ent)) :
    (l.flatMap (fun y => evDeleted y.2.isDir y.1)).filterMap key = l.map (fun y => Key.del y.1) := by
  induction l with
  | nil => rfl
  | cons y rest ih => simp [List.flatMap_cons, List.filterMap_append, keys_evDeleted, ih]

theorem sticky_rmlist {fs : FS} (hwf : fs.WF) (st : MSt) (hst : ViewOK st fs.nextIno) (op : Op) (paths : List P)
    (hev : macEvents fs op = (sel fs paths).map (fun y => remEv y.1 y.2))
    (hcon : macContract fs op = ((sel fs paths).flatMap (fun y => evDeleted y.2.isDir y.1), false))
    (hn : (fsAfter fs op).nextIno = fs.nextIno) (hv : winValid fs op = true) (hroot : op ≠ .rmdir ["W"])
    (ss : List Sticky) (hlen : ss.length = (macEvents fs op).length) :
    StickyOK fs op st (emitLoop (fsAfter fs op) ss.length st (stickAll (macEvents fs op) ss)) := by
  rw [hev] at hlen ⊢
  have hlen' : ss.length = (sel fs paths).length := by simpa using hlen
  obtain ⟨hk, hs, hvw⟩ := rem_list (fsAfter fs op) (sel fs paths) ss hlen' ss.length (by omega) st fs.nextIno hst (sel_ino hwf _)
  apply stickyOK_of_keys hwf hv hroot
  · rw [hk, hcon, keys_flat_deleted]; exact sameTree_refl _
  · exact hs
  · rw [hn]; exact hvw

theorem sticky_empty {fs : FS} (hwf : fs.WF) (st : MSt) (hst : ViewOK st fs.nextIno) (op : Op)
    (hev : macEvents fs op = []) (hcon : (macContract fs op).1.filterMap key = [])
    (hn : (fsAfter fs op).nextIno = fs.nextIno) (hv : winValid fs op = true) (hroot : op ≠ .rmdir ["W"])
    (ss : List Sticky) (hlen : ss.length = (macEvents fs op).length) :
    StickyOK fs op st (emitLoop (fsAfter fs op) ss.length st (stickAll (macEvents fs op) ss)) := by
  rw [hev] at hlen ⊢
  simp only [List.length_nil, List.length_eq_zero_iff] at hlen
  subst hlen
  apply stickyOK_of_keys hwf hv hroot
  · rw [hcon]; simp [stickAll, emitLoop, sameTree_refl]
  · simp [stickAll, emitLoop]
  · rw [hn]; simpa [stickAll, emitLoop] using hst

/-- C20 (FSEvents, sticky flags): whatever created / modified / inode-meta flags re-appear on the native events of a
    valid drained operation, the delivered stream replays to the tree after the operation, the emitter keeps running
    and its announced set stays sound -/
theorem sticky_step {fs : FS} (hwf : fs.WF) (st : MSt) (hst : ViewOK st fs.nextIno) (op : Op) (hv : winValid fs op = true)
    (hroot : op ≠ .rmdir ["W"]) (ss : List Sticky) (hlen : ss.length = (macEvents fs op).length) :
    StickyOK fs op st (emitLoop (fsAfter fs op) ss.length st (stickAll (macEvents fs op) ss)) := by
  have hvv := winValid_valid hv
  cases op with
  | create p => exact sticky_create hwf st hst p false _ (Or.inl ⟨rfl, rfl⟩) hv ss hlen
  | mkdir p => exact sticky_create hwf st hst p true _ (Or.inr ⟨rfl, rfl⟩) hv ss hlen
  | rename p q => exact sticky_rename hwf st hst p q hv ss hlen
  | rmtree p =>
    have hn : (fsAfter fs (.rmtree p)).nextIno = fs.nextIno := by
      simp only [fsAfter, kernelOp]; split <;> simp [removeAll_nextIno]
    exact sticky_rmlist hwf st hst _ _ (macEvents_rmtree fs p) (macContract_rmtree fs p) hn hv hroot ss hlen
  | rmtreeOrd p order =>
    have hn : (fsAfter fs (.rmtreeOrd p order)).nextIno = fs.nextIno := by
      simp only [fsAfter, kernelOp]; split <;> simp [removeAll_nextIno]
    exact sticky_rmlist hwf st hst _ _ (macEvents_rmtreeOrd fs p order) (macContract_rmtreeOrd fs p order) hn hv hroot ss hlen
  | write p =>
    have hn : (fsAfter fs (.write p)).nextIno = fs.nextIno := rfl
    simp only [validOp] at hvv
    obtain ⟨x, hx, hd⟩ := FS.isFile_iff.mp hvv
    have hex : fs.exists p = true := FS.exists_iff.mpr ⟨x, hx⟩
    cases hw : inW p with
    | false => exact sticky_empty hwf st hst _ (by simp [macEvents, hx, hw]) (by simp [macContract, hw]) hn hv hroot ss hlen
    | true =>
      exact sticky_item hwf st hst _ p x hx hw { path := p, ino := x.ino, isDir := x.isDir, modified := true }
        (by simp [macEvents, hx, hw]) ⟨rfl, rfl, rfl, rfl, rfl, rfl⟩ (by simp [macContract, hw, hex, List.filterMap_cons]) hn hv hroot ss hlen
  | chmod p =>
    have hn : (fsAfter fs (.chmod p)).nextIno = fs.nextIno := by
      have : fsAfter fs (.chmod p) = fs := by simp only [fsAfter, kernelOp]; split <;> rfl
      rw [this]
    cases hx : fs.find? p with
    | none => exact sticky_empty hwf st hst _ (by simp [macEvents, hx]) (by simp [macContract, hx]) hn hv hroot ss hlen
    | some x =>
      cases hw : inW p with
      | false => exact sticky_empty hwf st hst _ (by simp [macEvents, hx, hw]) (by simp [macContract, hx, hw]) hn hv hroot ss hlen
      | true =>
        exact sticky_item hwf st hst _ p x hx hw { path := p, ino := x.ino, isDir := x.isDir, metaMod := true }
          (by simp [macEvents, hx, hw]) ⟨rfl, rfl, rfl, rfl, rfl, rfl⟩
          (by cases hd : x.isDir <;> simp [macContract, hx, hw, hd, List.filterMap_cons]) hn hv hroot ss hlen
  | unlink p =>
    have hn : (fsAfter fs (.unlink p)).nextIno = fs.nextIno := by
      simp only [fsAfter, kernelOp]; split <;> simp [removeEntry]
    cases hx : fs.find? p with
    | none => exact sticky_empty hwf st hst _ (by simp [macEvents, hx]) (by simp [macContract, hx]) hn hv hroot ss hlen
    | some x =>
      cases hw : inW p with
      | false => exact sticky_empty hwf st hst _ (by simp [macEvents, hx, hw]) (by simp [macContract, hx, hw]) hn hv hroot ss hlen
      | true =>
        exact sticky_item hwf st hst _ p x hx hw { path := p, ino := x.ino, isDir := x.isDir, removed := true }
          (by simp [macEvents, hx, hw]) ⟨rfl, rfl, rfl, rfl, rfl, rfl⟩
          (by simp [macContract, hx, hw, keys_evDeleted]) hn hv hroot ss hlen
  | rmdir p =>
    have hn : (fsAfter fs (.rmdir p)).nextIno = fs.nextIno := by
      simp only [fsAfter, kernelOp]; split <;> simp [removeEntry]
    have hb : (p == ["W"]) = false := by
      cases h : (p == ["W"]) with
      | false => rfl
      | true => exact absurd (by rw [beq_iff_eq.mp h]) hroot
    cases hx : fs.find? p with
    | none => exact sticky_empty hwf st hst _ (by simp [macEvents, hx, hb]) (by simp [macContract, hx, hb]) hn hv hroot ss hlen
    | some x =>
      cases hw : inW p with
      | false => exact sticky_empty hwf st hst _ (by simp [macEvents, hx, hw, hb]) (by simp [macContract, hx, hw, hb]) hn hv hroot ss hlen
      | true =>
        exact sticky_item hwf st hst _ p x hx hw { path := p, ino := x.ino, isDir := x.isDir, removed := true }
          (by simp [macEvents, hx, hw, hb]) ⟨rfl, rfl, rfl, rfl, rfl, rfl⟩
          (by simp [macContract, hx, hw, hb, keys_evDeleted]) hn hv hroot ss hlen

end WD.Mac

namespace WD.Mac
open WD WD.Pipe WD.Win

theorem stickAll_length (evs : List MEv) (ss : List Sticky) (h : ss.length = evs.length) : (stickAll evs ss).length = ss.length := by
  simp [stickAll, h]

/-- C20 (FSEvents, sticky flags, whole histories, recursive watch): replaying the delivered stream reproduces the tree -/
theorem sticky_run (s : MSys) (hrec : s.recursive = true) (oss : List (Op × List Sticky)) (hwf : s.fs.WF) (hs : s.st.stopped = false)
    (hview : ViewOK s.st s.fs.nextIno) (hv : winFsValid s.fs (oss.map Prod.fst) = true) (hroot : Op.rmdir ["W"] ∉ oss.map Prod.fst)
    (hl : stickyLens s.fs oss) :
    sameTree (replay (treeW s.fs) (s.runSticky oss).2.flatten) (treeW (fsRun s.fs (oss.map Prod.fst))) := by
  induction oss generalizing s with
  | nil => exact sameTree_refl _
  | cons x rest ih =>
    obtain ⟨op, ss⟩ := x
    simp only [List.map_cons, winFsValid, Bool.and_eq_true] at hv
    simp only [stickyLens] at hl
    have hne : op ≠ .rmdir ["W"] := fun h => hroot (by simp [h])
    obtain ⟨h1, h2, h3⟩ := sticky_step hwf s.st hview op hv.1 hne ss hl.1
    have hb : emitBatch (fsAfter s.fs op) s.recursive s.st (stickAll (macEvents s.fs op) ss) =
        emitLoop (fsAfter s.fs op) ss.length s.st (stickAll (macEvents s.fs op) ss) := by
      simp only [emitBatch, hrec, if_true, stickAll_length _ _ hl.1]
    simp only [MSys.runSticky, hs, Bool.false_eq_true, if_false, hb, List.map_cons, fsRun, List.flatten_cons, replay_append]
    have := ih { s with fs := fsAfter s.fs op, st := (emitLoop (fsAfter s.fs op) ss.length s.st (stickAll (macEvents s.fs op) ss)).1 }
      hrec (wf_after hwf op (winValid_valid hv.1) hne) (h2.trans hs) h3 hv.2 (fun h => hroot (by simp [h])) hl.2
    exact sameTree_trans (sameTree_replay h1 _) this

end WD.Mac
