/- FSEvents: a callback boundary between the two events of a rename (the emitter falls back to deleted + created +
   synthetic created events) still replays to the right tree -/
import WD.Proofs.Mac.Run
set_option linter.unusedSimpArgs false
namespace WD.Mac
open WD WD.Pipe WD.Win

variable {fs : FS} {p q : P} {e : Ent}

/-- the synthetic created events and the synthetic moved events of an arrived directory place the same entries -/
theorem subCreated_as_subMoved (ok : RenameOK fs p q e) (hwf : fs.WF) (t : Tree)
    (ht : ∀ y ∈ t, y.1 ≠ p ∧ isUnder p y.1 = false) :
    sameTree (replay t (subCreated (fs.renamed p q) q)) (replay t (subMoved (fs.renamed p q) p q)) := by
  have hem := FS.find?_some ok.he
  have hfree := ok.q_free hwf
  have hwfR := ok.wf hwf
  have hpn : p ≠ [] := ne_nil_of_two_le ok.hp2
  have hpq : isUnder q p = false := by
    have := hfree e hem.1 (by rw [hem.2]; exact ok.hne); rwa [hem.2] at this
  have hinc : ∀ z, isUnder q z = true → z ≠ p ∧ isUnder p z = false := by
    intro z hz
    constructor
    · intro h; rw [h, hpq] at hz; cases hz
    · cases hc : isUnder p z with
      | false => rfl
      | true =>
        rcases prefix_comparable hz hc with h | h | h
        · exact absurd h.symm ok.hne
        · rw [hpq] at h; cases h
        · rw [ok.hnu] at h; cases h
  have hDnd : (((fs.renamed p q).descendants q).map Ent.path).Nodup :=
    List.Nodup.sublist (List.Sublist.map _ List.filter_sublist) hwfR.paths
  have hDq : ∀ d ∈ (fs.renamed p q).descendants q, isUnder q d.path = true := fun d hd => (List.mem_filter.mp hd).2
  intro y
  have h1 := mem_replay_subCreated ((fs.renamed p q).descendants q) hDnd t y
  have h2 := mem_replay_subMoved (q := q) p ((fs.renamed p q).descendants q) hDnd hDq hinc hpn t ht y
  exact h1.trans h2.symm

/-- the stream of a rename inside the tree whose two native events arrive in different callbacks -/
def cutStream (fs : FS) (p q : P) (d : Bool) : List PEv :=
  evDeleted d p ++ ([mkEv (createdCls d) q, dirMod q] ++ subCreated (fsAfter fs (.rename p q)) q)

theorem cut_rename_emits {fs : FS} (hwf : fs.WF) (st : MSt) (p q : P) (hv : winValid fs (.rename p q) = true)
    (hp : inW p = true) (hq : inW q = true) (x : Ent) (hx : fs.find? p = some x) :
    macEvents fs (.rename p q) =
      [{ path := p, ino := x.ino, isDir := x.isDir, renamed := true }] ++ [{ path := q, ino := x.ino, isDir := x.isDir, renamed := true }] ∧
    (emitBatch (fsAfter fs (.rename p q)) true
        (emitBatch (fsAfter fs (.rename p q)) true st [{ path := p, ino := x.ino, isDir := x.isDir, renamed := true }]).1
        [{ path := q, ino := x.ino, isDir := x.isDir, renamed := true }]).2 =
      [mkEv (createdCls x.isDir) q, dirMod q] ++ subCreated (fsAfter fs (.rename p q)) q ∧
    (emitBatch (fsAfter fs (.rename p q)) true st [{ path := p, ino := x.ino, isDir := x.isDir, renamed := true }]).2 = evDeleted x.isDir p := by
  obtain ⟨e, ok⟩ := renameOK_of_valid (winValid_valid hv)
  have hxe : x = e := by rw [ok.he] at hx; cases hx; rfl
  subst hxe
  have hsrc := find?_renamed_src ok hwf
  have hdst := find?_renamed_dst ok hwf
  refine ⟨by simp [macEvents, ok.he, hp, hq], ?_, ?_⟩
  · simp [emitBatch, emitLoop, emitOne, findDst, existsNow, hdst, rwEnt, evCreated, evModified, fsAfter_rename ok]
  · simp [emitBatch, emitLoop, emitOne, findDst, existsNow, hsrc, evRemoved, evModified, fsAfter_rename ok]

/-- C20 (FSEvents, callback cut inside a rename): the fallback stream replays to the same tree -/
theorem cut_rename_replay {fs : FS} (hwf : fs.WF) (p q : P) (hv : winValid fs (.rename p q) = true)
    (hp : inW p = true) (hq : inW q = true) :
    sameTree (replay (treeW fs) (cutStream fs p q (fs.isDir p))) (treeW (fsAfter fs (.rename p q))) := by
  obtain ⟨e, ok⟩ := renameOK_of_valid (winValid_valid hv)
  have hd : fs.isDir p = e.isDir := by simp [FS.isDir, ok.he]
  have hpn : p ≠ [] := ne_nil_of_two_le ok.hp2
  have hqn : q ≠ [] := ne_nil_of_two_le ok.hq2
  have hne : Op.rename p q ≠ Op.rmdir ["W"] := by intro h; cases h
  -- the uncut contract stream replays to the tree after
  have huncut := mac_replay_contract hwf (.rename p q) hv hne
  simp only [macContract, ok.he, hp, hq, Bool.and_self, if_true] at huncut
  rw [fsAfter_rename ok] at huncut ⊢
  apply sameTree_trans _ huncut
  simp only [cutStream, hd, fsAfter_rename ok, replay_append, replay_evDeleted, List.cons_append, List.nil_append, replay_cons,
    applyEv_dirMod, applyEv_mk_created, applyEv_mk_moved _ _ _ _ hpn hqn, replay_nil]
  apply subCreated_as_subMoved ok hwf
  intro z hz
  rcases mem_setEntry.mp hz with ⟨h1, _⟩ | h1
  · have := mem_eraseSub.mp h1; exact ⟨this.2.1, this.2.2⟩
  · rw [h1]; exact ⟨fun h => ok.hne h.symm, ok.hnu⟩

end WD.Mac
