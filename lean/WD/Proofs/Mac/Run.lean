/- whole histories through the FSEvents layer: contract refinement, replay, the non-recursive filter -/
import WD.Proofs.Mac.Step
set_option linter.unusedSimpArgs false
namespace WD.Mac
open WD WD.Pipe WD.Win

/-- C20 (FSEvents, one operation): the events delivered for the native events of one valid operation, read after
    the operation, are the FSEvents contract's (a non-recursive watch: those of them its filter lets through) -/
theorem mac_step {fs : FS} (hwf : fs.WF) (r : Bool) (st : MSt) (hst : ViewOK st fs.nextIno) (op : Op) (hv : winValid fs op = true) :
    (emitBatch (fsAfter fs op) r st (macEvents fs op)).2 =
      (if r then (macContract fs op).1 else (macContract fs op).1.filter keepFlat) ∧
    (emitBatch (fsAfter fs op) r st (macEvents fs op)).1.stopped = (st.stopped || (macContract fs op).2) ∧
    ViewOK (emitBatch (fsAfter fs op) r st (macEvents fs op)).1 (fsAfter fs op).nextIno := by
  obtain ⟨h1, h2, h3⟩ := loop_step hwf st hst op hv
  refine ⟨?_, h2, h3⟩
  simp only [emitBatch, h1]

/-- C20 (FSEvents, non-recursive watch): whatever the native events are, nothing is delivered that lies below the
    root's direct children — every delivered event names the root, a direct child of it, or moves something to a
    direct child of it -/
theorem flat_shallow (fs : FS) (st : MSt) (evs : List MEv) :
    ∀ e ∈ (emitBatch fs false st evs).2,
      e.src = ["W"] ∨ parentOf e.src = ["W"] ∨ parentOf e.dest = ["W"] := by
  intro e he
  simp only [emitBatch, Bool.false_eq_true, if_false, List.mem_filter] at he
  have hk := he.2
  simp only [keepFlat, Bool.or_eq_true, Bool.and_eq_true, beq_iff_eq] at hk
  rcases hk with hk | hk
  · split at hk
    · exact Or.inl hk
    · exact Or.inr (Or.inl hk)
  · exact Or.inr (Or.inr hk.2)

theorem macContract_stop_iff (fs : FS) (op : Op) : (macContract fs op).2 = true ↔ op = .rmdir ["W"] := by
  cases op with
  | rmdir p =>
    simp only [macContract]
    by_cases h : p = ["W"]
    · simp [h]
    · have hb : (p == ["W"]) = false := by simp [h]
      simp [hb, h]
  | rename p q => simp only [macContract]; split <;> (try split) <;> (try split) <;> (try split) <;> simp
  | chmod p => simp [macContract]
  | _ => simp [macContract]

theorem MSys.op_fs (s : MSys) (op : Op) : (s.op op).1.fs = fsAfter s.fs op := by
  simp only [MSys.op]; split <;> rfl
theorem MSys.op_rec (s : MSys) (op : Op) : (s.op op).1.recursive = s.recursive := by
  simp only [MSys.op]; split <;> rfl

theorem MSys.run_stopped (s : MSys) (ops : List Op) (h : s.st.stopped = true) : (s.run ops).2 = ops.map (fun _ => []) := by
  induction ops generalizing s with
  | nil => rfl
  | cons op rest ih =>
    have h1 : s.op op = ({ s with fs := fsAfter s.fs op }, []) := by simp [MSys.op, h]
    simp only [MSys.run, h1, List.map_cons]
    rw [ih { s with fs := fsAfter s.fs op } h]

def filterRun (r : Bool) (l : List (List PEv)) : List (List PEv) := if r then l else l.map (fun evs => evs.filter keepFlat)

theorem filterRun_cons (r : Bool) (a : List PEv) (l : List (List PEv)) :
    filterRun r (a :: l) = (if r then a else a.filter keepFlat) :: filterRun r l := by
  cases r <;> simp [filterRun]

theorem filterRun_nils (r : Bool) (l : List Op) : filterRun r (l.map (fun _ => ([] : List PEv))) = l.map (fun _ => []) := by
  cases r <;> simp [filterRun]

/-- C20 (FSEvents): for every history the file system accepts, every operation drained, the delivered stream is
    the FSEvents contract's, operation by operation -/
theorem run_contract (s : MSys) (ops : List Op) (hwf : s.fs.WF) (hs : s.st.stopped = false) (hview : ViewOK s.st s.fs.nextIno)
    (hv : winFsValid s.fs ops = true) : (s.run ops).2 = filterRun s.recursive (macContractRun s.fs ops) := by
  induction ops generalizing s with
  | nil => cases s.recursive <;> rfl
  | cons op rest ih =>
    simp only [winFsValid, Bool.and_eq_true] at hv
    obtain ⟨h1, h2, h3⟩ := mac_step hwf s.recursive s.st hview op hv.1
    have hop2 : (s.op op).2 = (if s.recursive then (macContract s.fs op).1 else (macContract s.fs op).1.filter keepFlat) := by
      simp only [MSys.op, hs, Bool.false_eq_true, if_false]; exact h1
    have hopst : (s.op op).1.st = (emitBatch (fsAfter s.fs op) s.recursive s.st (macEvents s.fs op)).1 := by
      simp only [MSys.op, hs, Bool.false_eq_true, if_false]
    simp only [MSys.run, macContractRun, filterRun_cons, hop2]
    congr 1
    cases hstop : (macContract s.fs op).2 with
    | true =>
      simp only [if_true, filterRun_nils]
      exact MSys.run_stopped _ _ (by rw [hopst, h2, hs, hstop]; rfl)
    | false =>
      simp only [Bool.false_eq_true, if_false]
      have hne : op ≠ .rmdir ["W"] := fun h => by
        have := (macContract_stop_iff s.fs op).mpr h
        rw [hstop] at this; cases this
      have := ih (s.op op).1 (by rw [MSys.op_fs]; exact wf_after hwf op (winValid_valid hv.1) hne)
        (by rw [hopst, h2, hs, hstop]; rfl) (by rw [hopst, MSys.op_fs]; exact h3) (by rw [MSys.op_fs]; exact hv.2)
      rw [MSys.op_fs, MSys.op_rec] at this
      exact this

/- ---------------- replay (recursive watch) ---------------- -/

theorem descendants_file {fs : FS} (hwf : fs.WF) {q : P} {x : Ent} (hq : fs.find? q = some x) (hf : x.isDir = false) (hne : q ≠ []) :
    fs.descendants q = [] := by
  simp only [FS.descendants, List.filter_eq_nil_iff]
  intro y hy
  have := FS.WF.file_no_desc hwf hq hf hne y hy
  simp [this]

theorem inW_watched {fs : FS} {p : P} (hp : 2 ≤ p.length) (hpar : fs.isDir (parentOf p) = true) :
    inW p = watchedDir fs true (parentOf p) := vis_watched true hp hpar

theorem removals_eq {fs : FS} (hwf : fs.WF) (ps : List P) (h : ∀ q ∈ ps, 2 ≤ q.length ∧ ∃ e, fs.find? q = some e) :
    (sel fs ps).flatMap (fun y => evDeleted y.2.isDir y.1) = contractRemovals fs true (ps.filterMap fs.find?) := by
  induction ps with
  | nil => rfl
  | cons q rest ih =>
    obtain ⟨hq2, e, he⟩ := h q (List.mem_cons_self ..)
    have hem := FS.find?_some he
    have hpar := entry_parent hwf he hq2
    have ih' := ih (fun x hx => h x (List.mem_cons_of_mem _ hx))
    simp only [sel, List.filterMap_cons, he, Option.bind_some, contractRemovals, List.flatMap_cons, hem.2] at ih' ⊢
    rw [← inW_watched hq2 hpar]
    cases hw : inW q
    · simpa using ih'
    · simp [ih']

theorem mac_keys_eq {fs : FS} (hwf : fs.WF) (op : Op) (hv : winValid fs op = true) (hroot : op ≠ .rmdir ["W"]) :
    (macContract fs op).1.filterMap key = (contract fs true false op).1.filterMap key := by
  simp only [winValid, Bool.and_eq_true] at hv
  obtain ⟨hv, hx⟩ := hv
  cases op with
  | create p =>
    obtain ⟨hp, hne, hpar⟩ := validOp_create hv
    simp only [macContract, contract, inW_watched hp hpar]
    by_cases h : watchedDir fs true (parentOf p) = true <;> simp [h, List.filterMap_cons]
  | mkdir p =>
    obtain ⟨hp, hne, hpar⟩ := validOp_mkdir hv
    simp only [macContract, contract, inW_watched hp hpar]
  | write p =>
    simp only [validOp] at hv
    obtain ⟨e, he, hd⟩ := FS.isFile_iff.mp hv
    obtain ⟨hp2, hpar⟩ := file_len hwf he hd
    simp only [macContract, contract, inW_watched hp2 hpar]
    have hex : fs.exists p = true := FS.exists_iff.mpr ⟨e, he⟩
    by_cases h : watchedDir fs true (parentOf p) = true <;> simp [h, hex, List.filterMap_cons]
  | chmod p =>
    simp only [macContract, contract]
    cases hf : fs.find? p with
    | none => simp
    | some e =>
      simp [keys_mod, keys_dmod, List.filterMap_append]
      intro a _ _ ha; rw [ha]; simp
  | unlink p =>
    simp only [validOp] at hv
    obtain ⟨e, he, hd⟩ := FS.isFile_iff.mp hv
    obtain ⟨hp2, hpar⟩ := file_len hwf he hd
    have hex : fs.exists p = true := FS.exists_iff.mpr ⟨e, he⟩
    simp only [macContract, contract, he, hd, inW_watched hp2 hpar, hex, Bool.and_true]
  | rmdir p =>
    have hv' := hv
    simp only [validOp, Bool.and_eq_true, Bool.or_eq_true, decide_eq_true_eq, beq_iff_eq] at hv'
    have hp2 : 2 ≤ p.length := by
      rcases hv'.1.1 with h | h
      · exact h
      · exact absurd (by rw [h]) hroot
    obtain ⟨e, he, hd⟩ := FS.isDir_iff.mp hv'.1.2
    have hpar := entry_parent hwf he hp2
    have hex : fs.exists p = true := FS.exists_iff.mpr ⟨e, he⟩
    have hb : (p == ["W"]) = false := by
      cases h : (p == ["W"]) with
      | false => rfl
      | true => exact absurd (by rw [beq_iff_eq.mp h]) hroot
    simp only [macContract, contract, he, hd, inW_watched hp2 hpar, hex, Bool.and_true, hb, Bool.false_eq_true, if_false]
  | rmtree p =>
    simp only [validOp] at hv
    rw [macContract_rmtree]
    simp only [contract]
    rw [← filterMap_find_snoc, removals_eq hwf _ (validRmtree_paths hv)]
  | rmtreeOrd p order =>
    simp only [validOp] at hv
    rw [macContract_rmtreeOrd]
    simp only [contract]
    rw [← filterMap_find_snoc, removals_eq hwf _ (validRmtree_paths hv)]
  | rename p q =>
    obtain ⟨e, ok⟩ := renameOK_of_valid hv
    have hq : fs.find? q = none := by
      cases h : fs.find? q with
      | none => rfl
      | some x => simp [FS.exists, h] at hx
    have hpp := entry_parent hwf ok.he ok.hp2
    have hfile : e.isDir = false → subMoved (fs.renamed p q) p q = [] ∧ subCreated (fs.renamed p q) q = [] := by
      intro hf
      have hd := descendants_file (ok.wf hwf) (find?_renamed_dst ok hwf) (by simpa [rwEnt] using hf) (ne_nil_of_two_le ok.hq2)
      simp [subMoved, subCreated, hd]
    simp only [macContract, contract, ok.he, fsAfter_rename ok, renameTail, hq,
      inW_watched ok.hp2 hpp, inW_watched ok.hq2 ok.hqpar]
    cases h3 : e.isDir with
    | false =>
      obtain ⟨hm, hc⟩ := hfile h3
      cases h1 : watchedDir fs true (parentOf p) <;> cases h2 : watchedDir fs true (parentOf q) <;>
        simp [movedCls, createdCls, keys_evDeleted, List.filterMap_append, List.filterMap_cons, hm, hc]
    | true =>
      cases h1 : watchedDir fs true (parentOf p) <;> cases h2 : watchedDir fs true (parentOf q) <;>
        simp [movedCls, createdCls, keys_evDeleted, List.filterMap_append, List.filterMap_cons]

theorem mac_replay_contract {fs : FS} (hwf : fs.WF) (op : Op) (hv : winValid fs op = true) (hroot : op ≠ .rmdir ["W"]) :
    sameTree (replay (treeW fs) (macContract fs op).1) (treeW (fsAfter fs op)) := by
  rw [replay_congr _ (mac_keys_eq hwf op hv hroot)]
  exact replay_contract hwf false op (winValid_valid hv)

/-- C20 (FSEvents, recursive watch): replaying the contract's events of a whole history on the tree as it stood at
    the start gives the tree that exists afterwards -/
theorem mac_replay_run {fs : FS} (hwf : fs.WF) (ops : List Op) (hv : winFsValid fs ops = true) (hroot : Op.rmdir ["W"] ∉ ops) :
    sameTree (replay (treeW fs) (macContractRun fs ops).flatten) (treeW (fsRun fs ops)) := by
  induction ops generalizing fs with
  | nil => exact sameTree_refl _
  | cons op rest ih =>
    simp only [winFsValid, Bool.and_eq_true] at hv
    have hne : op ≠ .rmdir ["W"] := fun h => hroot (h ▸ List.mem_cons_self ..)
    have hst : (macContract fs op).2 = false := by
      cases h : (macContract fs op).2 with
      | false => rfl
      | true => exact absurd ((macContract_stop_iff _ _).mp h) hne
    simp only [macContractRun, hst, Bool.false_eq_true, if_false, List.flatten_cons, replay_append, fsRun]
    have h1 := mac_replay_contract hwf op hv.1 hne
    have h2 := ih (wf_after hwf op (winValid_valid hv.1) hne) hv.2 (fun h => hroot (List.mem_cons_of_mem _ h))
    exact sameTree_trans (sameTree_replay h1 _) h2

end WD.Mac
