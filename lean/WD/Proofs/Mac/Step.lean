/- one drained operation through the FSEvents layer yields the FSEvents contract -/
import WD.Model.MacEmit
import WD.Proofs.Win.Run
set_option linter.unusedSimpArgs false
namespace WD.Mac
open WD WD.Pipe

theorem mem_add {st : MSt} {i j : Nat} : j ∈ (st.add i).fsView ↔ j = i ∨ j ∈ st.fsView := by
  simp only [MSt.add]
  split
  · rename_i h
    constructor
    · exact Or.inr
    · rintro (h1 | h1)
      · subst h1; simpa using h
      · exact h1
  · simp
theorem mem_discard {st : MSt} {i j : Nat} : j ∈ (st.discard i).fsView ↔ j ∈ st.fsView ∧ j ≠ i := by
  simp [MSt.discard]
@[simp] theorem add_stopped (st : MSt) (i : Nat) : (st.add i).stopped = st.stopped := rfl
@[simp] theorem discard_stopped (st : MSt) (i : Nat) : (st.discard i).stopped = st.stopped := rfl

/-- the announced inodes stay below the next inode the file system hands out -/
def ViewOK (st : MSt) (n : Nat) : Prop := ∀ i ∈ st.fsView, i < n

theorem ViewOK.add {st : MSt} {n i : Nat} (h : ViewOK st n) (hi : i < n) : ViewOK (st.add i) n := by
  intro j hj; rcases mem_add.mp hj with h1 | h1
  · omega
  · exact h j h1
theorem ViewOK.discard {st : MSt} {n i : Nat} (h : ViewOK st n) : ViewOK (st.discard i) n :=
  fun j hj => h j (mem_discard.mp hj).1
theorem ViewOK.mono {st : MSt} {n m : Nat} (h : ViewOK st n) (hnm : n ≤ m) : ViewOK st m :=
  fun j hj => Nat.lt_of_lt_of_le (h j hj) hnm
theorem ViewOK.not_mem {st : MSt} {n : Nat} (h : ViewOK st n) : st.fsView.contains n = false := by
  cases hc : st.fsView.contains n with
  | false => rfl
  | true => have := h n (by simpa using hc); omega

/-- a plain removal event -/
def remEv (q : P) (x : Ent) : MEv := { path := q, ino := x.ino, isDir := x.isDir, removed := true }

/-- a batch of plain removals: one deleted event (and the parent's modification) each; the announced set
    only shrinks -/
theorem loop_removals (fs : FS) (l : List (P × Ent)) (n : Nat) (hn : l.length ≤ n) (st : MSt) (m : Nat) (hst : ViewOK st m)
    (hl : ∀ y ∈ l, y.2.ino < m) :
    (emitLoop fs n st (l.map (fun y => remEv y.1 y.2))).2 = l.flatMap (fun y => evDeleted y.2.isDir y.1) ∧
    (emitLoop fs n st (l.map (fun y => remEv y.1 y.2))).1.stopped = st.stopped ∧
    ViewOK (emitLoop fs n st (l.map (fun y => remEv y.1 y.2))).1 m := by
  induction l generalizing n st with
  | nil => cases n <;> simp [emitLoop, hst]
  | cons y rest ih =>
    cases n with
    | zero => simp at hn
    | succ n =>
      have hone : emitOne fs st (remEv y.1 y.2) (rest.map (fun y => remEv y.1 y.2)) =
          ((st.add y.2.ino).discard y.2.ino, evDeleted y.2.isDir y.1, rest.map (fun y => remEv y.1 y.2)) := by
        simp [emitOne, remEv, evModified, evRemoved]
      have hst1 : ViewOK ((st.add y.2.ino).discard y.2.ino) m := (hst.add (hl y (List.mem_cons_self ..))).discard
      obtain ⟨h1, h2, h3⟩ := ih n (by simp at hn; omega) _ hst1 (fun z hz => hl z (List.mem_cons_of_mem _ hz))
      simp only [List.map_cons, emitLoop, hone, List.flatMap_cons]
      exact ⟨by rw [h1], by rw [h2]; simp, h3⟩

theorem find?_renamed_src {fs : FS} {p q : P} {e : Ent} (ok : RenameOK fs p q e) (hwf : fs.WF) : (fs.renamed p q).find? p = none := by
  rw [FS.find?_none]
  intro y hy
  obtain ⟨x, hx, hxq, rfl⟩ := FS.mem_renamed.mp hy
  have hem := FS.find?_some ok.he
  have hqp : isUnder q p = false := by
    have := ok.q_free hwf e hem.1 (by rw [hem.2]; exact ok.hne)
    rwa [hem.2] at this
  simp only [rwEnt]
  rcases rwPath_cases p q x.path with ⟨_, e1⟩ | ⟨_, _, u1⟩ | ⟨h1, _, e1⟩
  · rw [e1]; exact fun h => ok.hne h.symm
  · intro h; rw [h, hqp] at u1; cases u1
  · rw [e1]; exact h1

theorem find?_renamed_dst {fs : FS} {p q : P} {e : Ent} (ok : RenameOK fs p q e) (hwf : fs.WF) :
    (fs.renamed p q).find? q = some (rwEnt p q e) := by
  have hem := FS.find?_some ok.he
  have hpq : e.path ≠ q := by rw [hem.2]; exact ok.hne
  have hmem : rwEnt p q e ∈ (fs.renamed p q).ents := FS.mem_renamed.mpr ⟨e, hem.1, hpq, rfl⟩
  have hf := FS.find?_of_mem (ok.wf hwf).paths hmem
  have hpath : (rwEnt p q e).path = q := by simp [rwEnt, hem.2, rwPath_at]
  rwa [hpath] at hf

theorem entry_ino_lt {fs : FS} (hwf : fs.WF) {p : P} {x : Ent} (h : fs.find? p = some x) : x.ino < fs.nextIno :=
  hwf.inoLt (FS.find?_some h).1

/-- the removals an operation reports: the named paths that exist and lie below the root -/
def sel (fs : FS) (paths : List P) : List (P × Ent) :=
  paths.filterMap (fun q => (fs.find? q).bind (fun x => if inW q then some (q, x) else none))

theorem sel_events (fs : FS) (paths : List P) :
    paths.flatMap (fun q => match fs.find? q with
      | some x => if inW q then [({ ({ path := q, ino := x.ino, isDir := x.isDir } : MEv) with removed := true } : MEv)] else []
      | none => []) = (sel fs paths).map (fun y => remEv y.1 y.2) := by
  induction paths with
  | nil => rfl
  | cons q rest ih =>
    simp only [List.flatMap_cons, sel, List.filterMap_cons] at ih ⊢
    cases hf : fs.find? q with
    | none => simpa using ih
    | some x =>
      cases hw : inW q with
      | false => simpa [hw] using ih
      | true => simp [hw, remEv, ih]

theorem sel_contract (fs : FS) (paths : List P) :
    paths.flatMap (fun q => match fs.find? q with
      | some x => if inW q then evDeleted x.isDir q else []
      | none => []) = (sel fs paths).flatMap (fun y => evDeleted y.2.isDir y.1) := by
  induction paths with
  | nil => rfl
  | cons q rest ih =>
    simp only [List.flatMap_cons, sel, List.filterMap_cons] at ih ⊢
    cases hf : fs.find? q with
    | none => simpa using ih
    | some x =>
      cases hw : inW q with
      | false => simpa [hw] using ih
      | true => simp [hw, ih]

theorem macEvents_rmtreeOrd (fs : FS) (p : P) (order : List P) :
    macEvents fs (.rmtreeOrd p order) = (sel fs (order ++ [p])).map (fun y => remEv y.1 y.2) := sel_events fs (order ++ [p])
theorem macEvents_rmtree (fs : FS) (p : P) :
    macEvents fs (.rmtree p) = (sel fs (canonOrder fs p ++ [p])).map (fun y => remEv y.1 y.2) := sel_events fs (canonOrder fs p ++ [p])
theorem macContract_rmtreeOrd (fs : FS) (p : P) (order : List P) :
    macContract fs (.rmtreeOrd p order) = ((sel fs (order ++ [p])).flatMap (fun y => evDeleted y.2.isDir y.1), false) := by
  have := sel_contract fs (order ++ [p])
  simp only [macContract]; rw [← this]; rfl
theorem macContract_rmtree (fs : FS) (p : P) :
    macContract fs (.rmtree p) = ((sel fs (canonOrder fs p ++ [p])).flatMap (fun y => evDeleted y.2.isDir y.1), false) := by
  have := sel_contract fs (canonOrder fs p ++ [p])
  simp only [macContract]; rw [← this]; rfl

theorem sel_ino {fs : FS} (hwf : fs.WF) (paths : List P) : ∀ y ∈ sel fs paths, y.2.ino < fs.nextIno := by
  intro y hy
  simp only [sel, List.mem_filterMap] at hy
  obtain ⟨q, _, hq⟩ := hy
  cases hf : fs.find? q with
  | none => simp [hf] at hq
  | some x =>
    simp only [hf, Option.bind_some] at hq
    split at hq
    · cases hq; exact entry_ino_lt hwf hf
    · cases hq

theorem removeAll_nextIno (es : List Ent) (fs : FS) (k : Kern) : (removeAll fs k es).1.nextIno = fs.nextIno := by
  induction es generalizing fs k with
  | nil => rfl
  | cons x rest ih =>
    rw [removeAll_cons]
    simp only
    rw [ih]
    simp [removeEntry]

/-- what one callback with the events of one drained operation delivers (before the non-recursive filter) -/
theorem loop_step {fs : FS} (hwf : fs.WF) (st : MSt) (hst : ViewOK st fs.nextIno) (op : Op) (hv : Win.winValid fs op = true) :
    (emitLoop (fsAfter fs op) (macEvents fs op).length st (macEvents fs op)).2 = (macContract fs op).1 ∧
    (emitLoop (fsAfter fs op) (macEvents fs op).length st (macEvents fs op)).1.stopped = (st.stopped || (macContract fs op).2) ∧
    ViewOK (emitLoop (fsAfter fs op) (macEvents fs op).length st (macEvents fs op)).1 (fsAfter fs op).nextIno := by
  simp only [Win.winValid, Bool.and_eq_true] at hv
  obtain ⟨hv, hx⟩ := hv
  cases op with
  | create p =>
    have h1 : fsAfter fs (.create p) = fs.add p false := rfl
    have hn : (fs.add p false).nextIno = fs.nextIno + 1 := rfl
    cases h : inW p with
    | false => simp [macEvents, macContract, h, emitLoop, h1, hn]; exact hst.mono (by omega)
    | true =>
      simp [macEvents, macContract, h, emitLoop, emitOne, hst.not_mem, evCreated, evModified, createdCls, h1, hn]
      exact ⟨fun h => Nat.lt_irrefl _ (hst _ h), ViewOK.add (hst.mono (Nat.le_succ _)) (Nat.lt_succ_self _)⟩
  | mkdir p =>
    have h1 : fsAfter fs (.mkdir p) = fs.add p true := rfl
    have hn : (fs.add p true).nextIno = fs.nextIno + 1 := rfl
    cases h : inW p with
    | false => simp [macEvents, macContract, h, emitLoop, h1, hn]; exact hst.mono (by omega)
    | true =>
      simp [macEvents, macContract, h, emitLoop, emitOne, hst.not_mem, evCreated, evModified, createdCls, h1, hn]
      exact ⟨fun h => Nat.lt_irrefl _ (hst _ h), ViewOK.add (hst.mono (Nat.le_succ _)) (Nat.lt_succ_self _)⟩
  | write p =>
    have h1 : fsAfter fs (.write p) = fs := rfl
    simp only [validOp] at hv
    obtain ⟨e, he, hd⟩ := FS.isFile_iff.mp hv
    have hex : fs.exists p = true := FS.exists_iff.mpr ⟨e, he⟩
    cases h : inW p with
    | false => simp [macEvents, macContract, h, he, emitLoop, h1]; exact hst
    | true =>
      simp [macEvents, macContract, h, he, hex, hd, emitLoop, emitOne, evModified, h1]
      exact hst.add (entry_ino_lt hwf he)
  | chmod p =>
    have h1 : fsAfter fs (.chmod p) = fs := by simp only [fsAfter, kernelOp]; split <;> rfl
    cases he : fs.find? p with
    | none => simp [macEvents, macContract, he, emitLoop, h1]; exact hst
    | some e =>
      cases h : inW p with
      | false => simp [macEvents, macContract, h, he, emitLoop, h1]; exact hst
      | true =>
        simp [macEvents, macContract, h, he, emitLoop, emitOne, evModified, h1]
        exact hst.add (entry_ino_lt hwf he)
  | unlink p =>
    have hn : (fsAfter fs (.unlink p)).nextIno = fs.nextIno := by
      simp only [fsAfter, kernelOp]; split <;> simp [removeEntry]
    rw [hn]
    cases he : fs.find? p with
    | none => simp [macEvents, macContract, he, emitLoop]; exact hst
    | some e =>
      cases h : inW p with
      | false => simp [macEvents, macContract, h, he, emitLoop]; exact hst
      | true =>
        simp [macEvents, macContract, h, he, emitLoop, emitOne, evModified, evRemoved]
        exact (hst.add (entry_ino_lt hwf he)).discard
  | rmdir p =>
    have hn : (fsAfter fs (.rmdir p)).nextIno = fs.nextIno := by
      simp only [fsAfter, kernelOp]; split <;> simp [removeEntry]
    rw [hn]
    by_cases hw : p = ["W"]
    · subst hw
      simp [macEvents, macContract, emitLoop, emitOne, evModified, ViewOK]
    · have hb : (p == ["W"]) = false := by simp [hw]
      cases he : fs.find? p with
      | none => simp [macEvents, macContract, he, hb, emitLoop]; exact hst
      | some e =>
        cases h : inW p with
        | false => simp [macEvents, macContract, h, he, hb, emitLoop]; exact hst
        | true =>
          simp [macEvents, macContract, h, he, hb, emitLoop, emitOne, evModified, evRemoved]
          exact (hst.add (entry_ino_lt hwf he)).discard
  | rmtree p =>
    have hn : (fsAfter fs (.rmtree p)).nextIno = fs.nextIno := by
      simp only [fsAfter, kernelOp]; split <;> simp [removeAll_nextIno]
    rw [hn]
    rw [macEvents_rmtree, macContract_rmtree]
    have := loop_removals (fsAfter fs (.rmtree p)) (sel fs (canonOrder fs p ++ [p]))
      ((sel fs (canonOrder fs p ++ [p])).map (fun y => remEv y.1 y.2)).length (by simp) st fs.nextIno hst (sel_ino hwf _)
    simpa using this
  | rmtreeOrd p order =>
    have hn : (fsAfter fs (.rmtreeOrd p order)).nextIno = fs.nextIno := by
      simp only [fsAfter, kernelOp]; split <;> simp [removeAll_nextIno]
    rw [hn]
    rw [macEvents_rmtreeOrd, macContract_rmtreeOrd]
    have := loop_removals (fsAfter fs (.rmtreeOrd p order)) (sel fs (order ++ [p]))
      ((sel fs (order ++ [p])).map (fun y => remEv y.1 y.2)).length (by simp) st fs.nextIno hst (sel_ino hwf _)
    simpa using this
  | rename p q =>
    obtain ⟨e, ok⟩ := renameOK_of_valid hv
    have hn : (fs.renamed p q).nextIno = fs.nextIno := rfl
    have hsrc := find?_renamed_src ok hwf
    have hdst := find?_renamed_dst ok hwf
    have hi := entry_ino_lt hwf ok.he
    simp only [macEvents, macContract, ok.he, fsAfter_rename ok, hn]
    cases hp : inW p <;> cases hq : inW q
    · simp [emitLoop]; exact hst
    · simp [emitLoop, emitOne, findDst, existsNow, hdst, rwEnt, evCreated, evModified]
      exact hst.add hi
    · simp [emitLoop, emitOne, findDst, existsNow, hsrc, evRemoved, evModified]
      exact (hst.add hi).discard
    · simp [emitLoop, emitOne, findDst, evModified]
      exact hst.add hi

end WD.Mac
