/-
  WD.Spec.SnapshotSpec — what C09 says a diff *is*, written as brute-force comprehensions over
  the two snapshots (no algorithm).  Used three ways: object of the theorems in WD.Props.C09,
  judge of the implementation's output, oracle of the failing-input search.
-/
import WD.Model.Snapshot
namespace WD.Spec
open WD

/-- some entry of `s` has identity `i` -/
def hasId (s : Snap) (i : FileId) : Bool := s.stats.any (fun e => e.2.id == i)

/-- created: in the new snapshot, identity absent from the old one -/
def created (ref snap : Snap) : List Path :=
  (snap.stats.filter (fun e => !(hasId ref e.2.id))).map Prod.fst

/-- deleted: in the old snapshot, identity absent from the new one -/
def deleted (ref snap : Snap) : List Path :=
  (ref.stats.filter (fun e => !(hasId snap e.2.id))).map Prod.fst

/-- moved: same identity found under a different path -/
def moved (ref snap : Snap) : List (Path × Path) :=
  ref.stats.flatMap (fun a => (snap.stats.filter (fun b => a.2.id == b.2.id && a.1 != b.1)).map (fun b => (a.1, b.1)))

/-- modified (reported under the old path): identity kept, mtime or size changed -/
def modified (ref snap : Snap) : List Path :=
  (ref.stats.filter (fun a => snap.stats.any (fun b => a.2.id == b.2.id && dataDiffers a.2 b.2))).map Prod.fst

/-- executable well-formedness of a walk's entry list: "every inode has one path" -/
def entriesWF (es : List (Path × Stat)) : Bool :=
  decide ((es.map Prod.fst).Nodup) && decide ((es.map (fun e => e.2.id)).Nodup) && es.all (fun e => e.1 != "")

end WD.Spec
