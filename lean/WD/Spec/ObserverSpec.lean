/-
  WD.Spec.ObserverSpec — vocabulary of C04/C05 over the observation history of WD.Obs.
-/
import WD.Model.Observer
namespace WD.Obs

/-- is handler `h` registered for watch `w` after the history `p`?  (fold of the registration ghosts) -/
def registered (p : List Obs) (h : Hid) (w : Wid) : Bool :=
  p.foldl (fun acc o => match o with
    | .reg h' w' => if h' = h ∧ w' = w then true else acc
    | .unreg h' w' => if h' = h ∧ w' = w then false else acc
    | .unregW w' => if w' = w then false else acc
    | .unregAll => false
    | _ => acc) false

/-- does a successful call `op` remove handler `h` from watch `w`? -/
def removes (op : Op) (h : Hid) (w : Wid) : Bool :=
  match op with
  | .unschedule w' => w' == w
  | .removeHandler h' w' => h' == h && w' == w
  | .unscheduleAll => true
  | .stop => true
  | _ => false

def enqUids (p : List Obs) : List Nat := p.filterMap (fun o => match o with | .enq _ _ u => some u | _ => none)
def callUids (h : Hid) (p : List Obs) : List Nat :=
  p.filterMap (fun o => match o with | .call h' _ _ u => if h' = h then some u else none | _ => none)

end WD.Obs
