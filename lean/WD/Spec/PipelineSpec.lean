/-
  WD.Spec.PipelineSpec — the per-operation CONTRACT of the native pipeline as a function of the file
  system alone (no kernel, no library state), the hypotheses of the pipeline theorems and the pipeline
  invariant as executable predicates (the driver evaluates them on every history it replays against the
  real observer).
-/
import WD.Model.Pipeline
namespace WD.Pipe

/-- every operation is one the file system accepts when its turn comes -/
def allValid (s : Sys) : List Op → Bool
  | [] => true
  | op :: rest => validOp s.fs op && allValid (s.op op).1 rest

def allEvents (r : Sys × List (List PEv)) : List PEv := r.2.flatten

/-- is `d` a directory the watch reports the entries of?  recursive: the root and every directory below
    it; non-recursive: the root only -/
def watchedDir (fs : FS) (recursive : Bool) (d : P) : Bool :=
  fs.isDir d && (d == ["W"] || (recursive && isUnder ["W"] d))

def dirMod (p : P) : PEv := mkEv .DirModifiedEvent (parentOf p)
def evDeleted (isDir : Bool) (p : P) : List PEv :=
  [mkEv (if isDir then .DirDeletedEvent else .FileDeletedEvent) p, dirMod p]
def movedCls (isDir : Bool) : EvClass := if isDir then .DirMovedEvent else .FileMovedEvent
def createdCls (isDir : Bool) : EvClass := if isDir then .DirCreatedEvent else .FileCreatedEvent

/-- the file system after an operation (no kernel involved) -/
def fsAfter (fs : FS) (op : Op) : FS := (kernelOp fs ⟨[], 1, 1⟩ op).1

def contractRemovals (fs : FS) (recursive : Bool) (es : List Ent) : List PEv :=
  es.flatMap (fun e => if watchedDir fs recursive (parentOf e.path) then evDeleted e.isDir e.path else [])

/-- the replaced directory (if it was one of the tree) reports a change of itself -/
def renameTail (fs : FS) (recursive : Bool) (q : P) : List PEv :=
  match fs.find? q with
  | some old => if old.isDir && watchedDir fs recursive q then [mkEv .DirModifiedEvent q] else []
  | none => []

/-- C03's per-operation contract: the events one operation must produce, and whether the emitter stops -/
def contract (fs : FS) (recursive full : Bool) (op : Op) : List PEv × Bool :=
  let w := fun (p : P) => watchedDir fs recursive (parentOf p)
  match op with
  | .create p =>
    (if w p then [mkEv .FileCreatedEvent p, dirMod p, mkEv .FileOpenedEvent p, mkEv .FileClosedEvent p, dirMod p] else [], false)
  | .write p =>
    (if w p then [mkEv .FileOpenedEvent p, mkEv .FileModifiedEvent p, mkEv .FileClosedEvent p, dirMod p] else [], false)
  | .chmod p =>
    match fs.find? p with
    | some e =>
      ((if e.isDir && watchedDir fs recursive p then [mkEv .DirModifiedEvent p] else []) ++
       (if w p then [mkEv (if e.isDir then .DirModifiedEvent else .FileModifiedEvent) p] else []), false)
    | none => ([], false)
  | .unlink p => (if w p && fs.exists p then evDeleted false p else [], false)
  | .mkdir p => (if w p then [mkEv .DirCreatedEvent p, dirMod p] else [], false)
  | .rmdir p =>
    if p == ["W"] then ([mkEv .DirDeletedEvent p], true)
    else (if w p && fs.exists p then evDeleted true p else [], false)
  | .rmtree p => (contractRemovals fs recursive ((canonOrder fs p).filterMap fs.find? ++ (fs.find? p).toList), false)
  | .rmtreeOrd p order => (contractRemovals fs recursive (order.filterMap fs.find? ++ (fs.find? p).toList), false)
  | .rename p q =>
    match fs.find? p with
    | none => ([], false)
    | some e =>
      let fs1 := fsAfter fs op
      let tail := renameTail fs recursive q
      if w p && w q then
        ([mkEv (movedCls e.isDir) p q, dirMod p, dirMod q] ++
         (if e.isDir && recursive then subMoved fs1 p q else []) ++ tail, false)
      else if w p then
        ((if full then [mkEv (movedCls e.isDir) p [], dirMod p] else evDeleted e.isDir p) ++ tail, false)
      else if w q then
        ((if full then [mkEv (movedCls e.isDir) [] q] else [mkEv (createdCls e.isDir) q]) ++ [dirMod q] ++
         (if e.isDir && recursive then subCreated fs1 q else []) ++ tail, false)
      else ([], false)

/- ---------------------------- the pipeline invariant, executable ---------------------------- -/

def inTreeDir (e : Ent) : Bool := e.isDir && (e.path == ["W"] || isUnder ["W"] e.path)

/-- recursive watch: kernel watches, `_path_for_wd` and `_wd_for_path` are one and the same bijection
    between watch descriptors and the directories that exist at or below the root, under their real
    current paths — nothing missing (C02's coverage), nothing stale -/
def invRec (s : Sys) : Bool :=
  decide ((s.k.watches.map (·.1)).Nodup) && decide ((s.k.watches.map (·.2)).Nodup) &&
  s.k.watches.all (fun w => decide (w.1 < s.k.nextWd) &&
    s.fs.ents.any (fun e => e.ino == w.2 && inTreeDir e && lookupW s.lib.pathForWd w.1 == some e.path &&
                            lookupP s.lib.wdForPath e.path == some w.1)) &&
  s.fs.ents.all (fun e => !inTreeDir e || (s.k.wdOfIno e.ino).isSome) &&
  s.lib.pathForWd.all (fun x => s.k.watches.any (fun w => w.1 == x.1)) &&
  decide ((s.lib.pathForWd.map (·.1)).Nodup) &&
  s.lib.wdForPath.all (fun x => lookupW s.lib.pathForWd x.2 == some x.1) &&
  decide ((s.lib.wdForPath.map (·.1)).Nodup)

/-- non-recursive watch: one watch, on the root -/
def invFlat (s : Sys) : Bool :=
  match s.fs.find? ["W"] with
  | some e => s.k.watches == [(1, e.ino)] && s.lib.pathForWd == [(1, ["W"])] && s.lib.wdForPath == [(["W"], 1)] && e.isDir
  | none => false

def Sys.inv (s : Sys) : Bool := !s.crashed && (if s.lib.recursive then invRec s else invFlat s)

end WD.Pipe
