/-
  WD.Spec.PipelineSpec — hypotheses of the pipeline theorems as executable predicates (the driver
  evaluates them on every history it replays against the real observer).
-/
import WD.Model.Pipeline
namespace WD.Pipe

/-- every operation is one the file system accepts when its turn comes -/
def allValid (s : Sys) : List Op → Bool
  | [] => true
  | op :: rest => validOp s.fs op && allValid (s.op op).1 rest

/-- C01/C02's histories: valid operations on entries of the watched tree (moves out of and into the tree
    included) that do not reach into a directory which left the tree with its watches (known finding D2) -/
def histOk (s : Sys) : List Op → Bool
  | [] => true
  | op :: rest => validOp s.fs op && inScope op && quietOp s.fs s.k op && histOk (s.op op).1 rest

def allEvents (r : Sys × List (List PEv)) : List PEv := r.2.flatten

end WD.Pipe
