import WD.Model.InoBuffer
namespace WD.IB

def puts (h : List Obs) : List Elem := h.filterMap (fun o => match o with | .put _ e _ _ => some e | _ => none)
def gots (h : List Obs) : List Elem := h.filterMap (fun o => match o with | .got _ e _ => some e | _ => none)
def removeds (h : List Obs) : List Elem := h.filterMap (fun o => match o with | .removed _ e _ => some e | _ => none)
def live (h : List Obs) : List Elem := (puts h).filter (fun e => !(removeds h).contains e)

def opPuts : List Op → List Elem
  | [] => []
  | .put e _ :: rest => e :: opPuts rest
  | _ :: rest => opPuts rest

def distinctPuts (scripts : List (List Op)) : Prop := ((scripts.flatMap opPuts).map Elem.uid).Nodup

/-- the native records an item stands for -/
def itemRecs : Item → List Rec
  | .single r => [r]
  | .pair f t => [f, t]
  | .lookup _ t => [t]

end WD.IB
