/-
  WD.Spec.PollingSpec — vocabulary of C10 over the virtual file system.
-/
import WD.Model.Polling
namespace WD.Poll
open WD

mutual
/-- below the root, every `listdir` failure is one the walk absorbs: ENOENT/ENOTDIR/EINVAL (treated as
    empty) or EACCES (sub-walk skipped).  `stat` failures are always absorbed and are unconstrained. -/
def tolerantBelow : List VNode → Bool
  | [] => true
  | .mk _ (.ok st) l :: rest =>
    (if st.isdir then
      (match l with
       | .ok ch => tolerantBelow ch
       | .error e => tolerated e || e == .eacces)
     else true) && tolerantBelow rest
  | .mk _ (.error _) _ :: rest => tolerantBelow rest
end

/-- the root's own listing: success with tolerable faults below, or a failure treated as empty -/
def tolerantTop : Except Err (List VNode) → Bool
  | .ok ch => tolerantBelow ch
  | .error e => tolerated e

mutual
/-- no faults at all below this point -/
def faultFree : List VNode → Bool
  | [] => true
  | .mk _ (.ok st) l :: rest =>
    (match l with
     | .ok ch => if st.isdir then faultFree ch else true
     | .error _ => !st.isdir) && faultFree rest
  | .mk _ (.error _) _ :: _ => false
end

mutual
/-- every entry reachable from `root` (pre-order), with the stat data the stat function returns -/
def allEntries (root : String) : List VNode → List (Path × Stat)
  | [] => []
  | .mk n (.ok st) l :: rest =>
    (join root n, st) ::
      ((if st.isdir then (match l with | .ok ch => allEntries (join root n) ch | .error _ => []) else [])
        ++ allEntries root rest)
  | .mk _ (.error _) _ :: rest => allEntries root rest
end

def totalEvents (gs : List (List Event)) : Nat := (gs.map List.length).sum

end WD.Poll
