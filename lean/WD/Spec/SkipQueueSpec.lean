import WD.Model.SkipQueue
namespace WD.SQ

def enqs (h : List Obs) : List Item := h.filterMap (fun o => match o with | .enq _ x => some x | _ => none)
def gots (h : List Obs) : List Item := h.filterMap (fun o => match o with | .got _ x => some x | _ => none)

def opPuts : List Op → List Item
  | [] => []
  | .put x :: rest => x :: opPuts rest
  | _ :: rest => opPuts rest

/-- every `put` offers a distinct object (events are fresh objects) -/
def distinctPuts (scripts : List (List Op)) : Prop := ((scripts.flatMap opPuts).map Item.uid).Nodup

end WD.SQ
