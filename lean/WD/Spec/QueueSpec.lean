/-
  WD.Spec.QueueSpec — the observable vocabulary of C17 over the ghost history of WD.DQ.
-/
import WD.Model.DelayQueue
namespace WD.DQ

def puts (h : List Obs) : List Elem := h.filterMap (fun o => match o with | .put _ e _ _ => some e | _ => none)
def gots (h : List Obs) : List Elem := h.filterMap (fun o => match o with | .got _ e _ => some e | _ => none)
def removeds (h : List Obs) : List Elem := h.filterMap (fun o => match o with | .removed _ e _ => some e | _ => none)

/-- the elements put so far that no `remove()` has taken out, in put order -/
def live (h : List Obs) : List Elem := (puts h).filter (fun e => !(removeds h).contains e)

def opPuts : List Op → List Elem
  | [] => []
  | .put e _ :: rest => e :: opPuts rest
  | _ :: rest => opPuts rest

/-- every `put` in the scripts creates a distinct object -/
def distinctPuts (scripts : List (List Op)) : Prop := ((scripts.flatMap opPuts).map Elem.uid).Nodup

def hasGet (script : List Op) : Bool := script.contains .get

/-- at most one thread ever calls `get()` (the library's use: one consumer) -/
def singleConsumer (scripts : List (List Op)) : Prop := (scripts.filter hasGet).length ≤ 1

end WD.DQ
