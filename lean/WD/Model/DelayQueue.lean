/-
  WD.Model.DelayQueue — `watchdog.utils.delayed_queue.DelayedQueue` as a transition system.

  Threads run scripts of API calls; a *step* of a thread is the code between two visible
  operations of the real class (lock acquire, condition wait, sleep, the unlocked write of
  `_closed`) — exactly the granularity at which harness/detsched.py schedules the real code.
  Time is a natural number of ticks (the harness uses 1 tick = 1/8 s, so float arithmetic is exact).
-/
namespace WD.DQ

/-- a queued element: `uid` is Python object identity (`is`), `val` what predicates look at -/
structure Elem where
  uid : Nat
  val : Nat
  deriving DecidableEq, Repr, Inhabited

/-- `(element, insert_time, delay)` -/
structure Entry where
  elem : Elem
  ins : Nat
  delayed : Bool
  deriving DecidableEq, Repr, Inhabited

inductive Op
  | put (e : Elem) (delayed : Bool)
  | get
  | remove (val : Nat)        -- `remove(lambda x: x.val == val)`
  | close
  | sleep (d : Nat)
  deriving DecidableEq, Repr, Inhabited

/-- program counter inside the current call -/
inductive Pc
  | begin                      -- thread not yet run
  | putAcq (e : Elem) (delayed : Bool)
  | getAcq                     -- at `_not_empty.acquire()`
  | getWait                    -- inside `_not_empty.wait()`
  | getSleep (head : Entry) (deadline : Nat)
  | getPop (head : Entry)      -- at `with self._lock:` before the identity re-check
  | remAcq (val : Nat)
  | closeFlag                  -- before the unlocked `self._closed = True`
  | closeAcq                   -- at `_not_empty.acquire()` in close
  | sleeping (deadline : Nat)
  | done
  deriving DecidableEq, Repr, Inhabited

/-- what the harness can observe / the ghost history the theorems talk about -/
inductive Obs
  | put (tid : Nat) (e : Elem) (delayed : Bool) (t : Nat)
  | got (tid : Nat) (e : Elem) (t : Nat)
  | gotNone (tid : Nat) (t : Nat)
  | removed (tid : Nat) (e : Elem) (t : Nat)
  | removedNone (tid : Nat) (t : Nat)
  | closed (tid : Nat) (t : Nat)
  deriving DecidableEq, Repr, Inhabited

structure Thread where
  pc : Pc
  script : List Op             -- calls still to make after the current one
  notified : Bool := false
  deriving DecidableEq, Repr, Inhabited

structure State where
  delay : Nat
  clock : Nat
  queue : List Entry
  closed : Bool
  waiters : List Nat           -- tids inside `wait()`, oldest first, not yet notified
  threads : List Thread
  hist : List Obs              -- newest last
  deriving Repr, Inhabited

def init (delay : Nat) (scripts : List (List Op)) : State :=
  { delay := delay, clock := 0, queue := [], closed := false, waiters := [],
    threads := scripts.map (fun s => { pc := .begin, script := s }), hist := [] }

def State.thread? (s : State) (tid : Nat) : Option Thread := s.threads[tid]?

def State.setThread (s : State) (tid : Nat) (t : Thread) : State :=
  { s with threads := s.threads.set tid t }

/- the lock is not a field: every step that takes it releases it before the step ends (the real
    code never reaches a visible operation while holding the lock, except `wait`, which releases
    it).  So the lock is always free between steps and "enabled iff lock free" is trivially met. -/

/-- `notify()`: wake the oldest waiter -/
def notifyOne (s : State) : State :=
  match s.waiters with
  | [] => s
  | w :: rest =>
    match s.thread? w with
    | some t => { (s.setThread w { t with notified := true }) with waiters := rest }
    | none => { s with waiters := rest }

/-- the thread has finished a call and runs on to the first visible operation of its next call -/
def arrive (s : State) (tid : Nat) (t : Thread) : State :=
  match t.script with
  | [] => s.setThread tid { t with pc := .done, script := [] }
  | op :: rest =>
    let pc := match op with
      | .put e d => Pc.putAcq e d
      | .get => Pc.getAcq
      | .remove v => Pc.remAcq v
      | .close => Pc.closeFlag
      | .sleep d => Pc.sleeping (s.clock + d)
    s.setThread tid { t with pc := pc, script := rest, notified := false }

/-- `get`: the code that runs with the lock held after `acquire()` / after waking from `wait()` -/
def getLocked (s : State) (tid : Nat) (t : Thread) : State :=
  match s.queue with
  | [] =>
    if s.closed then
      arrive { s with hist := s.hist ++ [.gotNone tid s.clock] } tid t
    else
      { (s.setThread tid { t with pc := .getWait, notified := false }) with waiters := s.waiters ++ [tid] }
  | head :: _ =>
    if s.closed then
      arrive { s with hist := s.hist ++ [.gotNone tid s.clock] } tid t
    else if head.delayed && s.clock < head.ins + s.delay then
      s.setThread tid { t with pc := .getSleep head (head.ins + s.delay) }
    else
      s.setThread tid { t with pc := .getPop head }

/-- first element whose value satisfies the predicate, and the queue without it -/
def removeFirst (v : Nat) : List Entry → Option (Entry × List Entry)
  | [] => none
  | e :: rest =>
    if e.elem.val = v then some (e, rest)
    else match removeFirst v rest with
      | some (x, r) => some (x, e :: r)
      | none => none

/-- is thread `tid` able to take a step now? -/
def enabled (s : State) (tid : Nat) : Bool :=
  match s.thread? tid with
  | none => false
  | some t =>
    match t.pc with
    | .done => false
    | .getWait => t.notified
    | .getSleep _ dl => dl ≤ s.clock
    | .sleeping dl => dl ≤ s.clock
    | _ => true

/-- one scheduling step of thread `tid` (`none` when it is not enabled) -/
def step (s : State) (tid : Nat) : Option State :=
  if !enabled s tid then none else
  match s.thread? tid with
  | none => none
  | some t =>
    match t.pc with
    | .begin => some (arrive s tid t)
    | .putAcq e d =>
      let s1 := { s with queue := s.queue ++ [⟨e, s.clock, d⟩], hist := s.hist ++ [.put tid e d s.clock] }
      let s2 := notifyOne s1
      -- notifyOne may have rewritten the thread list, but never this thread's own entry
      some (arrive s2 tid t)
    | .getAcq => some (getLocked s tid t)
    | .getWait => some (getLocked s tid { t with notified := false })
    | .getSleep head _ => some (s.setThread tid { t with pc := .getPop head })
    | .getPop head =>
      match s.queue with
      | h :: rest =>
        if h.elem.uid = head.elem.uid then
          some (arrive { s with queue := rest, hist := s.hist ++ [.got tid head.elem s.clock] } tid t)
        else some (s.setThread tid { t with pc := .getAcq })
      | [] => some (s.setThread tid { t with pc := .getAcq })
    | .remAcq v =>
      match removeFirst v s.queue with
      | some (e, q) => some (arrive { s with queue := q, hist := s.hist ++ [.removed tid e.elem s.clock] } tid t)
      | none => some (arrive { s with hist := s.hist ++ [.removedNone tid s.clock] } tid t)
    | .closeFlag => some ({ s with closed := true }.setThread tid { t with pc := .closeAcq })
    | .closeAcq =>
      let s1 := notifyOne s
      some (arrive { s1 with hist := s1.hist ++ [.closed tid s1.clock] } tid t)
    | .sleeping _ => some (arrive s tid t)
    | .done => none

/-- environment actions: a thread step, or time passing -/
inductive Action
  | step (tid : Nat)
  | tick (d : Nat)
  deriving DecidableEq, Repr, Inhabited

def act (s : State) : Action → State
  | .step tid => (step s tid).getD s      -- a disabled choice is a no-op
  | .tick d => { s with clock := s.clock + d }

def run (s : State) (as : List Action) : State := as.foldl act s

/- ---- what the driver needs to mirror harness/detsched.py: enabled set and idle time jumps ---- -/

def enabledList (s : State) : List Nat :=
  (List.range s.threads.length).filter (enabled s)

def deadlines (s : State) : List Nat :=
  s.threads.filterMap (fun t => match t.pc with
    | .getSleep _ dl => some dl
    | .sleeping dl => some dl
    | _ => none)

/-- when nobody is enabled and a timer is pending, the clock jumps to the earliest deadline -/
def idleAdvance (s : State) : State :=
  if (enabledList s).isEmpty then
    match (deadlines s).min? with
    | some dl => if s.clock < dl then { s with clock := dl } else s
    | none => s
  else s

end WD.DQ
