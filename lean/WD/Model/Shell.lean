/-
  WD.Model.Shell — `watchdog.tricks.ShellCommandTrick` driven by ONE dispatching thread (its observer's),
  with its `ProcessWatcher` threads, over a simulated process table (commands end by themselves).
  One step = the region between two visible operations (sleep, `Popen.wait()`, the yield after
  `Thread.start`, the watcher's `stopped_event.wait(0.1)`); times in ms.
-/
namespace WD.Shell

inductive Op
  | event
  | sleep (ms : Nat)
  deriving DecidableEq, Repr, Inhabited

inductive CPc
  | begin
  | sleeping (dl : Nat)
  | waitProc (pid : Nat)      -- `self.process.wait()`
  | started                   -- after `process_watcher.start()`
  | done
  deriving DecidableEq, Repr, Inhabited

inductive WPc
  | begin
  | wWait (dl : Nat)
  | done
  deriving DecidableEq, Repr, Inhabited

structure Watcher where
  pid : Nat
  pc : WPc := .begin
  inSet : Bool := true        -- still in `_process_watchers`
  deriving DecidableEq, Repr, Inhabited

structure Proc where
  start : Nat
  dies : Option Nat
  deriving DecidableEq, Repr, Inhabited

def Proc.alive (p : Proc) (clock : Nat) : Bool :=
  match p.dies with | some d => clock < d | none => true

inductive Obs
  | spawn (pid : Nat) (t : Nat)
  | eventRet (t : Nat)
  deriving DecidableEq, Repr, Inhabited

structure State where
  wait : Bool
  drop : Bool
  clock : Nat := 0
  pc : CPc := .begin
  script : List Op
  watchers : List Watcher := []      -- thread k+1 = watcher k
  lifetimes : List (Option Nat)
  procs : List Proc := []
  process : Option Nat := none
  hist : List Obs := []
  deriving Repr, Inhabited

def init (wait drop : Bool) (lifetimes : List (Option Nat)) (script : List Op) : State :=
  { wait := wait, drop := drop, script := script, lifetimes := lifetimes }

def State.log (s : State) (o : Obs) : State := { s with hist := s.hist ++ [o] }

def State.aliveP (s : State) (pid : Nat) : Bool :=
  match s.procs[pid]? with
  | some p => p.alive s.clock
  | none => false

/-- `is_process_running()` -/
def State.running (s : State) : Bool :=
  s.watchers.any (·.inSet) || (match s.process with | some pid => s.aliveP pid | none => false)

def State.spawn (s : State) : State :=
  let life := s.lifetimes.head?.join
  let pid := s.procs.length
  ({ s with procs := s.procs ++ [{ start := s.clock, dies := life.map (s.clock + ·) }],
            lifetimes := s.lifetimes.tail, process := some pid } : State).log (.spawn pid s.clock)

/-- the dispatcher moves on to the first visible operation of its next call (a dropped event returns at once) -/
def arriveL : List Op → State → State
  | [], s => { s with pc := .done, script := [] }
  | .sleep d :: rest, s => { s with pc := .sleeping (s.clock + d), script := rest }
  | .event :: rest, s =>
    if s.drop && s.running then arriveL rest (s.log (.eventRet s.clock))
    else
      let pid := s.procs.length
      let s1 := s.spawn
      if s.wait then { s1 with pc := .waitProc pid, script := rest }
      else { s1 with watchers := s1.watchers ++ [{ pid := pid }], pc := .started, script := rest }

def arrive (s : State) : State := arriveL s.script s

def clientEnabled (s : State) : Bool :=
  match s.pc with
  | .begin => true
  | .sleeping dl => dl ≤ s.clock
  | .waitProc pid => !s.aliveP pid
  | .started => true
  | .done => false

def clientStep (s : State) : State :=
  match s.pc with
  | .begin => arrive s
  | .sleeping _ => arrive s
  | .waitProc _ => arrive (s.log (.eventRet s.clock))
  | .started => arrive (s.log (.eventRet s.clock))
  | .done => s

def watcherEnabled (s : State) (w : Watcher) : Bool :=
  match w.pc with
  | .begin => true
  | .wWait dl => dl ≤ s.clock
  | .done => false

/-- `ProcessWatcher.run` from the loop head; the termination callback removes the watcher from the set -/
def watcherStep (s : State) (k : Nat) (w : Watcher) : State :=
  match w.pc with
  | .done => s
  | _ =>
    if s.aliveP w.pid then { s with watchers := s.watchers.set k { w with pc := .wWait (s.clock + 100) } }
    else { s with watchers := s.watchers.set k { w with pc := .done, inSet := false } }

def enabled (s : State) : Nat → Bool
  | 0 => clientEnabled s
  | k + 1 => match s.watchers[k]? with | some w => watcherEnabled s w | none => false

def step (s : State) : Nat → Option State
  | 0 => if clientEnabled s then some (clientStep s) else none
  | k + 1 =>
    match s.watchers[k]? with
    | some w => if watcherEnabled s w then some (watcherStep s k w) else none
    | none => none

inductive Action
  | step (tid : Nat)
  | tick (d : Nat)
  deriving DecidableEq, Repr, Inhabited

def act (s : State) : Action → State
  | .step tid => (step s tid).getD s
  | .tick d => { s with clock := s.clock + d }

def run (s : State) (as : List Action) : State := as.foldl act s

def enabledList (s : State) : List Nat := (List.range (s.watchers.length + 1)).filter (enabled s)

def deadlines (s : State) : List Nat :=
  (match s.pc with
   | .sleeping dl => [dl]
   | .waitProc pid => (match s.procs[pid]? with | some p => p.dies.toList | none => [])
   | _ => []) ++
  s.watchers.filterMap (fun w => match w.pc with | .wWait dl => some dl | _ => none)

def idleAdvance (s : State) : State :=
  if (enabledList s).isEmpty then
    match (deadlines s).min? with
    | some dl => if s.clock < dl then { s with clock := dl } else s
    | none => s
  else s

def State.aliveList (s : State) : List Nat := (List.range s.procs.length).filter s.aliveP

end WD.Shell
