/-
  WD.Model.SubEvents — `generate_sub_moved_events` / `generate_sub_created_events`
  (watchdog.events) over an ordered tree, with `os.walk`'s top-down order and `os.path.join`.
  Paths are `List Char` (a Python str/bytes as a sequence) so that prefix arithmetic is plain list
  arithmetic.
-/
namespace WD

abbrev PStr := List Char

/-- a directory's content in `os.scandir` order -/
inductive Node
  | file (name : PStr)
  | dir (name : PStr) (children : List Node)
  deriving Repr, Inhabited

def Node.name : Node → PStr
  | .file n => n
  | .dir n _ => n

def Node.isDir : Node → Bool
  | .file _ => false
  | .dir _ _ => true

/-- `os.path.join(root, name)` for a relative `name` -/
def pjoin (root name : PStr) : PStr :=
  if root = [] then name else if root.getLast? = some '/' then root ++ name else root ++ '/' :: name

/-- a synthetic sub-event: kind, source path, destination path ("" = absent) -/
structure SubEv where
  isDir : Bool
  src : PStr
  dest : PStr
  deriving DecidableEq, Repr

/-- the source path computed for a descendant: the old directory path followed by whatever follows
    the new directory path in the descendant's real path (`src + full[len(dst):]`) -/
def rewritePrefix (src dst full : PStr) : PStr :=
  if src = [] then [] else src ++ full.drop dst.length

mutual
/-- one `os.walk` level and the levels below it: events for the sub-directories of `root`, then for
    its files, then recursively for each sub-directory in order -/
def walkEvents (mk : Bool → PStr → SubEv) (root : PStr) (children : List Node) : List SubEv :=
  (children.filter Node.isDir).map (fun c => mk true (pjoin root c.name)) ++
  (children.filter (fun c => !c.isDir)).map (fun c => mk false (pjoin root c.name)) ++
  walkBelow mk root children
def walkBelow (mk : Bool → PStr → SubEv) (root : PStr) : List Node → List SubEv
  | [] => []
  | .file _ :: rest => walkBelow mk root rest
  | .dir n ch :: rest => walkEvents mk (pjoin root n) ch ++ walkBelow mk root rest
end

def mkMoved (src dst : PStr) (isDir : Bool) (full : PStr) : SubEv :=
  { isDir := isDir, src := rewritePrefix src dst full, dest := full }

def mkCreated (isDir : Bool) (full : PStr) : SubEv :=
  { isDir := isDir, src := full, dest := [] }

/-- `generate_sub_moved_events(src_dir_path, dest_dir_path)` when `dest_dir_path` holds `children`
    (every event produced is a Dir/FileMovedEvent with `is_synthetic=True`) -/
def subMovedEvents (src dst : PStr) (children : List Node) : List SubEv :=
  walkEvents (mkMoved src dst) dst children

/-- `generate_sub_created_events(src_dir_path)` -/
def subCreatedEvents (dir : PStr) (children : List Node) : List SubEv :=
  walkEvents mkCreated dir children

/-- the prefix rewrite `Inotify.read_events` applies to the keys of its watch map when a watched
    directory `old` is renamed to `new`: keys under `old + "/"` are re-keyed, others untouched -/
def rekeyPath (old new p : PStr) : PStr :=
  if (old ++ ['/']).isPrefixOf p then new ++ p.drop old.length else p

/- ------------- specification side ------------- -/

mutual
/-- the descendants as relative suffixes ("/a", "/a/b", ...) with their kind, in the order of the
    walk (sub-directories of a level, its files, then each sub-directory's levels) -/
def walkSuf (pre : PStr) (children : List Node) : List (PStr × Bool) :=
  (children.filter Node.isDir).map (fun c => (pre ++ '/' :: c.name, true)) ++
  (children.filter (fun c => !c.isDir)).map (fun c => (pre ++ '/' :: c.name, false)) ++
  walkSufBelow pre children
def walkSufBelow (pre : PStr) : List Node → List (PStr × Bool)
  | [] => []
  | .file _ :: rest => walkSufBelow pre rest
  | .dir n ch :: rest => walkSuf (pre ++ '/' :: n) ch ++ walkSufBelow pre rest
end

mutual
/-- the descendants in plain pre-order (the "natural" enumeration, independent of `os.walk`) -/
def descSuf (pre : PStr) : List Node → List (PStr × Bool)
  | [] => []
  | .file n :: rest => (pre ++ '/' :: n, false) :: descSuf pre rest
  | .dir n ch :: rest => (pre ++ '/' :: n, true) :: (descSuf (pre ++ '/' :: n) ch ++ descSuf pre rest)
end

mutual
/-- names are non-empty and contain no separator (true of every directory entry) -/
def namesOk : List Node → Bool
  | [] => true
  | .file n :: rest => (n != [] && !n.contains '/') && namesOk rest
  | .dir n ch :: rest => (n != [] && !n.contains '/') && namesOk ch && namesOk rest
end

end WD

namespace WD
mutual
/-- no two entries of one directory share a name (true of every real directory) -/
def siblingsUnique : List Node → Bool
  | [] => true
  | .file n :: rest => !(rest.any (fun c => c.name == n)) && siblingsUnique rest
  | .dir n ch :: rest => !(rest.any (fun c => c.name == n)) && siblingsUnique ch && siblingsUnique rest
end
end WD
