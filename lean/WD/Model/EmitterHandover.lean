/-
  WD.Model.EmitterHandover — `InotifyEmitter.on_thread_start` against `stop()` (`BaseThread.stop`: set the flag, then
  `on_thread_stop`), when `BaseObserver.start()` starts an emitter outside the observer's lock and a `stop()` /
  `unschedule()` overtakes it.  Two threads, one step per attribute access (the GIL makes each atomic):

    starter:  [if self.ident is not None: raise] ; buf = InotifyBuffer(...) ; self._inotify = buf ;
              if stopped: on_thread_stop() ; Thread.start (sets ident) ; optionally start() once more
    stopper:  stopped = True ; on_thread_stop()
    on_thread_stop:  x = self._inotify ; if x is not None: (self._inotify = None ; x.close())

  (A first version of the repair wrote `x, self._inotify = self._inotify, None` unconditionally: this model showed the
  interleaving in which the stopper reads None, the starter assigns the buffer, and the stopper's write of None wipes the
  only reference - `handover` below did not check until `on_thread_stop` stopped writing when it had read None.)

  (D20: before `BaseThread.start` looked at `ident`, a second `start()` of a started emitter ran `on_thread_start`
  again and overwrote `_inotify` - the first buffer, which the running thread reads, could no longer be closed by
  anyone: `lost` below, and `stepNoGuard`.)

  `close` is idempotent (Inotify.close / InotifyBuffer.close check `_closed` under the instance's lock, C12).
-/
namespace WD.Hand

inductive SPc | guard | create | assign | check | rd | wr | cl | started | done
  deriving DecidableEq, Repr, Inhabited
inductive TPc | setFlag | rd | wr | cl | done
  deriving DecidableEq, Repr, Inhabited

structure St where
  sp : SPc := .guard
  tp : TPc := .setFlag
  stopped : Bool := false
  created : Bool := false      -- the buffer exists (its thread runs, its descriptors are open)
  closed : Bool := false       -- close() has been called on it
  field : Bool := false        -- `self._inotify is not None`
  sx : Bool := false           -- the starter's local `x is not None`
  ty : Bool := false           -- the stopper's local `y is not None`
  ident : Bool := false        -- `Thread.start` has run (`self.ident is not None`)
  again : Bool := false        -- the starter will call `start()` a second time
  lost : Bool := false         -- a reference to a buffer was overwritten by another one
  deriving DecidableEq, Repr, Inhabited

/-- one step of the starter (`true`) or of the stopper (`false`); a finished thread does nothing -/
def stepG (guarded : Bool) (s : St) (starter : Bool) : St :=
  if starter then
    match s.sp with
    | .guard =>
      if guarded && s.ident then (if s.again then { s with again := false } else { s with sp := .done })   -- raise RuntimeError
      else { s with sp := .create }
    | .create => { s with sp := .assign, created := true }
    | .assign => { s with sp := .check, field := true, lost := s.lost || s.field }
    | .check => if s.stopped then { s with sp := .rd } else { s with sp := .started }
    | .rd => if s.field then { s with sp := .wr, sx := true } else { s with sp := .started, sx := false }
    | .wr => { s with sp := .cl, field := false }
    | .cl => { s with sp := .started, closed := s.closed || s.sx }
    | .started =>       -- `threading.Thread.start(self)` (raises when already started; either way this call is over)
      if s.again then { s with sp := .guard, ident := true, again := false } else { s with sp := .done, ident := true }
    | .done => s
  else
    match s.tp with
    | .setFlag => { s with tp := .rd, stopped := true }
    | .rd => if s.field then { s with tp := .wr, ty := true } else { s with tp := .done, ty := false }
    | .wr => { s with tp := .cl, field := false }
    | .cl => { s with tp := .done, closed := s.closed || s.ty }
    | .done => s

def step : St → Bool → St := stepG true

/-- `BaseThread.start` before D20 was repaired: no look at `ident` -/
def stepNoGuard : St → Bool → St := stepG false

def run (s : St) (sched : List Bool) : St := sched.foldl step s

/-- the starter calls `start()` once (`false`) or twice (`true`) -/
def init (again : Bool) : St := { again := again }

/-- the version before the repair: `on_thread_start` does not look at the flag -/
def stepOld (s : St) (starter : Bool) : St :=
  if starter then
    match s.sp with
    | .guard => { s with sp := .create }
    | .create => { s with sp := .assign, created := true }
    | .assign => { s with sp := .done, field := true }
    | _ => s
  else
    match s.tp with
    | .setFlag => { s with tp := .rd, stopped := true }
    | .rd => if s.field then { s with tp := .cl, ty := true, field := false } else { s with tp := .done }
    | .cl => { s with tp := .done, closed := s.closed || s.ty }
    | _ => s

end WD.Hand

namespace WD.Hand

/-- the shape of the source this model was written from, in the vocabulary of `harness/tables.py` (`handover_shape`):
    one label per statement, shared attributes only -/
def modelThreadStart : List String :=
  ["if self.ident is not None: [local; other: raise RuntimeError(error)]", "call on_thread_start", "start thread"]
def modelThreadStop : List String := ["set stop flag", "call on_thread_stop"]
def modelOnThreadStart : List String :=
  ["local", "local", "create buffer; write field", "if not self.should_keep_running(): [call on_thread_stop]"]
def modelOnThreadStop : List String := ["read field to local inotify", "if inotify: [write field none; close local inotify]"]

end WD.Hand
