/-
  WD.Model.Restart — `watchdog.tricks.AutoRestartTrick` with its helper threads
  (`ProcessWatcher` per child, optional `EventDebouncer`) over a simulated process table, as a
  transition system.  One step = the region between two *visible operations* of the real code
  (lock acquire, condition/event wait, sleep, join, the yield after `Thread.start`); times in ms.

  Threads: clients `0..n-1` run scripts of `start()`, an event (`dispatch`), `stop()`, `sleep`; helper
  threads are appended in creation order (the debouncer by `start()`, one watcher per spawned child).
  `_stopping_lock` is held across a visible operation only by `start()` (the yield after the debouncer's
  `Thread.start`): "some thread is at `saDebStarted`" is its owner; `_restart_lock` and the debouncer's condition
  lock are state components (a restart runs inside the debouncer's callback, lock held).
-/
namespace WD.Rst

inductive Op
  | start
  | event
  | stop
  | sleep (ms : Nat)
  deriving DecidableEq, Repr, Inhabited

inductive Kind
  | client
  | deb
  | watcher (pid : Nat)
  deriving DecidableEq, Repr, Inhabited

/-- what follows `_stop_process()`: the rest of `_restart_process`, or the rest of `stop()` (with the
    watcher threads it captured: `_process_watchers`, every watcher that may still be running) -/
inductive After
  | restart
  | stop (ws : List Nat)
  deriving DecidableEq, Repr, Inhabited

inductive Pc
  | begin
  | done
  | sleeping (dl : Nat)
  -- start()
  | saSAcq                           -- `with self._stopping_lock:` in start()
  | saDebStarted                     -- after `event_debouncer.start()` (`_stopping_lock` held)
  | saRAcq                           -- `with self._restart_lock:` in start()
  | saStarted                        -- after `process_watcher.start()` (lock held)
  -- an event
  | evCond                           -- `handle_event`: `with self._cond:`
  -- `_restart_process` (clients, watchers, the debouncer's callback)
  | rAcq                             -- `with self._restart_lock:`
  | spAcq (a : After)                -- `_stop_process`: `with self._stopping_lock:` (restart lock held)
  | spSleep (killTime dl : Nat) (a : After)   -- `time.sleep(0.25)` in the kill loop
  | rStarted                         -- after `process_watcher.start()` (lock held)
  -- stop()
  | stAcq                            -- `with self._stopping_lock:`
  | stCond                           -- `event_debouncer.stop()`: `with self._cond:`
  | stRAcq                           -- `with self._restart_lock:`
  | stJoinDeb (ws : List Nat)        -- `event_debouncer.join()`
  | stJoinW (w : Nat) (rest : List Nat)   -- `for process_watcher in process_watchers: process_watcher.join()`
  -- ProcessWatcher.run
  | wWait (dl : Nat)                 -- `stopped_event.wait(timeout=0.1)`
  -- EventDebouncer.run
  | dAcq
  | dWaitFirst
  | dWaitMore (dl : Nat)
  deriving DecidableEq, Repr, Inhabited

inductive Obs
  | spawn (pid : Nat) (t : Nat)
  | kill (pid : Nat) (sig : Nat) (t : Nat)
  | started (tid : Nat) (t : Nat)          -- start() returned
  | eventRet (tid : Nat) (t : Nat)         -- dispatch(event) returned
  | stopRet (tid : Nat) (t : Nat)          -- the stop() that did the work returned
  | stopNoop (tid : Nat) (t : Nat)         -- a stop() that found the trick already stopping returned
  deriving DecidableEq, Repr, Inhabited

structure Proc where
  start : Nat
  dies : Option Nat          -- exits by itself at this time
  killedAt : Option Nat      -- dies of a signal at this time
  deriving DecidableEq, Repr, Inhabited

def Proc.alive (p : Proc) (clock : Nat) : Bool :=
  (match p.killedAt with | some k => clock < k | none => true) &&
  (match p.dies with | some d => clock < d | none => true)

structure Thread where
  kind : Kind
  pc : Pc
  script : List Op := []
  stopFlag : Bool := false       -- `BaseThread._stopped_event`
  deriving DecidableEq, Repr, Inhabited

structure Cfg where
  interval : Nat            -- debounce interval (0 = no debouncer)
  killAfter : Nat           -- `kill_after`
  killDelay : Nat           -- how long a child takes to die of a signal other than 9
  restartOnExit : Bool
  deriving DecidableEq, Repr, Inhabited

structure State where
  cfg : Cfg
  clock : Nat := 0
  threads : List Thread
  lifetimes : List (Option Nat)        -- of the children still to be spawned
  procs : List Proc := []              -- pid = index
  process : Option Nat := none         -- `self.process`
  watcher : Option Nat := none         -- `self.process_watcher` (tid)
  watchers : List Nat := []            -- `self._process_watchers` (tids): the watchers that may still be running
  debTid : Option Nat := none          -- `self.event_debouncer` (tid)
  events : Nat := 0                    -- `len(debouncer._events)`
  notified : Bool := false
  condHeld : Bool := false
  procStopping : Bool := false         -- `_is_process_stopping`
  trickStopping : Bool := false        -- `_is_trick_stopping`
  restartOwner : Option Nat := none    -- holder of `_restart_lock`
  restartCount : Nat := 0
  hist : List Obs := []
  deriving Repr, Inhabited

def init (cfg : Cfg) (lifetimes : List (Option Nat)) (scripts : List (List Op)) : State :=
  { cfg := cfg, lifetimes := lifetimes,
    threads := scripts.map (fun s => { kind := .client, pc := .begin, script := s }) }

def State.log (s : State) (o : Obs) : State := { s with hist := s.hist ++ [o] }
def State.thread? (s : State) (i : Nat) : Option Thread := s.threads[i]?
def State.setThread (s : State) (i : Nat) (t : Thread) : State := { s with threads := s.threads.set i t }
def State.setPc (s : State) (i : Nat) (pc : Pc) : State :=
  match s.threads[i]? with
  | some t => s.setThread i { t with pc := pc }
  | none => s
def State.isDone (s : State) (i : Nat) : Bool :=
  match s.threads[i]? with
  | some t => t.pc == .done
  | none => true
def State.setStopFlag (s : State) (i : Nat) : State :=
  match s.threads[i]? with
  | some t => s.setThread i { t with stopFlag := true }
  | none => s
def State.stopFlagOf (s : State) (i : Nat) : Bool :=
  match s.threads[i]? with
  | some t => t.stopFlag
  | none => false

def State.aliveP (s : State) (pid : Nat) : Bool :=
  match s.procs[pid]? with
  | some p => p.alive s.clock
  | none => false

/-- `subprocess.Popen(...)` on the process table -/
def State.spawn (s : State) : State :=
  let life := s.lifetimes.head?.join
  let pid := s.procs.length
  ({ s with procs := s.procs ++ [{ start := s.clock, dies := life.map (s.clock + ·), killedAt := none }],
            lifetimes := s.lifetimes.tail, process := some pid } : State).log (.spawn pid s.clock)

/-- `kill_process(pid, sig)` on a live child -/
def State.kill (s : State) (pid sig : Nat) : State :=
  match s.procs[pid]? with
  | none => s
  | some p =>
    let at_ := if sig = 9 then s.clock else s.clock + s.cfg.killDelay
    let k := match p.killedAt with | some o => min o at_ | none => at_
    ({ s with procs := s.procs.set pid { p with killedAt := some k } } : State).log (.kill pid sig s.clock)

/-- a client moves on to the first visible operation of its next call -/
def arrive (s : State) (i : Nat) : State :=
  match s.threads[i]? with
  | none => s
  | some t =>
    match t.script with
    | [] => s.setThread i { t with pc := .done }
    | .sleep d :: rest => s.setThread i { t with pc := .sleeping (s.clock + d), script := rest }
    | .stop :: rest => s.setThread i { t with pc := .stAcq, script := rest }
    | .event :: rest =>
      s.setThread i { t with pc := if s.debTid.isSome then .evCond else .rAcq, script := rest }
    | .start :: rest => s.setThread i { t with pc := .saSAcq, script := rest }

/-- `_stopping_lock` is taken: `start()` holds it while it creates and starts the debouncer -/
def State.startHolds (s : State) : Bool := s.threads.any (fun t => t.pc == .saDebStarted)

/-- `start()` from the acquisition of `_stopping_lock`: a trick that is stopping is left alone; the debouncer is created
    once -/
def startBody (s : State) (i : Nat) : State :=
  if s.trickStopping then arrive (s.log (.started i s.clock)) i
  else if s.cfg.interval != 0 && s.debTid.isNone then
    -- EventDebouncer(...).start(): the new thread exists, the starter yields (lock held)
    let d := s.threads.length
    let s1 := s.setPc i .saDebStarted
    { s1 with threads := s1.threads ++ [{ kind := .deb, pc := .begin }], debTid := some d }
  else s.setPc i .saRAcq

def State.debRunning (s : State) : Bool :=
  match s.debTid with
  | some d => !s.stopFlagOf d
  | none => false

/-- `self._cond.notify()` -/
def State.notify (s : State) : State :=
  match s.debTid with
  | some d =>
    match s.threads[d]? with
    | some t => (match t.pc with
        | .dWaitFirst => { s with notified := true }
        | .dWaitMore _ => { s with notified := true }
        | _ => s)
    | none => s
  | none => s

/-- the debouncer's loop from its head (condition lock held) to its next visible operation -/
def debHead (s : State) (i : Nat) : State :=
  if s.events == 0 && s.debRunning then
    ({ s with condHeld := false, notified := false } : State).setPc i .dWaitFirst
  else if s.debRunning then
    ({ s with condHeld := false, notified := false } : State).setPc i (.dWaitMore (s.clock + s.cfg.interval))
  else ({ s with condHeld := false } : State).setPc i .done

/-- after the debounce waits: leave, or hand the batch to the callback = `_restart_process` -/
def debDeliver (s : State) (i : Nat) : State :=
  if !s.debRunning then ({ s with condHeld := false } : State).setPc i .done
  else ({ s with events := 0 } : State).setPc i .rAcq

/-- `_restart_process` has returned (lock released): what the calling thread does next -/
def afterRestart (s : State) (i : Nat) : State :=
  match s.threads[i]? with
  | none => s
  | some t =>
    match t.kind with
    | .client => arrive (s.log (.eventRet i s.clock)) i
    | .watcher _ => s.setPc i .done
    | .deb => debHead s i

/-- the end of `_restart_process` after `_start_process` -/
def restartFinish (s : State) (i : Nat) : State :=
  afterRestart { s with restartCount := s.restartCount + 1, restartOwner := none } i

/-- the end of `stop()` -/
def stopFinish (s : State) (i : Nat) : State := arrive (s.log (.stopRet i s.clock)) i

/-- `_start_process` + the rest of the caller up to the next visible operation -/
def startProcess (s : State) (i : Nat) (inStart : Bool) : State :=
  let fin (s : State) : State :=
    if inStart then arrive (({ s with restartOwner := none } : State).log (.started i s.clock)) i
    else restartFinish s i
  if s.trickStopping then fin s
  else
    let s1 := s.spawn
    if s.cfg.restartOnExit then
      let w := s1.threads.length
      let pid := s.procs.length
      -- `_process_watchers = [w for w in _process_watchers if w.is_alive()] + [process_watcher]`
      let s2 : State := { s1 with threads := s1.threads ++ [{ kind := .watcher pid, pc := .begin }], watcher := some w,
                                  watchers := s1.watchers.filter (fun x => !s1.isDone x) ++ [w] }
      s2.setPc i (if inStart then .saStarted else .rStarted)
    else fin s1

/-- what follows `_stop_process` -/
def afterStopProc (s : State) (i : Nat) : After → State
  | .restart => startProcess s i false
  | .stop ws =>
    let s1 := { s with restartOwner := none }
    if s1.debTid.isSome then s1.setPc i (.stJoinDeb ws)
    else match ws with
      | w :: rest => s1.setPc i (.stJoinW w rest)
      | [] => stopFinish s1 i

/-- `self.process = None; finally: self._is_process_stopping = False` and on -/
def stopProcDone (s : State) (i : Nat) (a : After) : State :=
  afterStopProc { s with process := none, procStopping := false } i a

/-- the kill loop `while time.time() < kill_time: if poll() is not None: break; sleep(0.25)` / else: kill -9 -/
def killLoop (s : State) (i : Nat) (killTime : Nat) (a : After) : State :=
  match s.process with
  | none => stopProcDone s i a          -- not reachable (theorem `sleeping_has_process`)
  | some pid =>
    if s.clock < killTime then
      if !s.aliveP pid then stopProcDone s i a
      else s.setPc i (.spSleep killTime (s.clock + 250) a)
    else
      let s1 := if s.aliveP pid then s.kill pid 9 else s
      stopProcDone s1 i a

/-- `if self.process_watcher is not None: self.process_watcher.stop(); self.process_watcher = None` -/
def State.stopWatcher (s : State) : State :=
  match s.watcher with
  | some w => ({ s.setStopFlag w with watcher := none } : State)
  | none => s

/-- `_stop_process` from the acquisition of `_stopping_lock` -/
def stopProcBody (s : State) (i : Nat) (a : After) : State :=
  if s.procStopping then afterStopProc s i a
  else
    let s2 := ({ s with procStopping := true } : State).stopWatcher
    match s2.process with
    | none => afterStopProc { s2 with procStopping := false } i a
    | some pid =>
      if !s2.aliveP pid then stopProcDone s2 i a                 -- OSError: already gone
      else killLoop (s2.kill pid 2) i (s2.clock + s2.cfg.killAfter) a

/-- `ProcessWatcher.run` from the loop head -/
def watcherLoop (s : State) (i : Nat) (pid : Nat) : State :=
  if s.aliveP pid then s.setPc i (.wWait (s.clock + 100))
  else if !s.stopFlagOf i then s.setPc i .rAcq
  else s.setPc i .done

def enabledT (s : State) (t : Thread) : Bool :=
  match t.pc with
  | .begin => true
  | .done => false
  | .sleeping dl => dl ≤ s.clock
  | .saSAcq => !s.startHolds
  | .saDebStarted => true
  | .saRAcq => s.restartOwner.isNone
  | .saStarted => true
  | .evCond => !s.condHeld
  | .rAcq => s.restartOwner.isNone
  | .spAcq _ => !s.startHolds
  | .spSleep _ dl _ => dl ≤ s.clock
  | .rStarted => true
  | .stAcq => !s.startHolds
  | .stCond => !s.condHeld
  | .stRAcq => s.restartOwner.isNone
  | .stJoinDeb _ => (match s.debTid with | some d => s.isDone d | none => true)
  | .stJoinW w _ => s.isDone w
  | .wWait dl => t.stopFlag || dl ≤ s.clock
  | .dAcq => !s.condHeld
  | .dWaitFirst => s.notified && !s.condHeld
  | .dWaitMore dl => (s.notified || dl ≤ s.clock) && !s.condHeld

def enabled (s : State) (i : Nat) : Bool :=
  match s.threads[i]? with
  | some t => enabledT s t
  | none => false

def stepT (s : State) (i : Nat) (t : Thread) : State :=
  match t.pc with
  | .done => s
  | .begin =>
    (match t.kind with
     | .client => arrive s i
     | .deb => s.setPc i .dAcq
     | .watcher pid => watcherLoop s i pid)
  | .sleeping _ => arrive s i
  | .saSAcq => startBody s i
  | .saDebStarted => s.setPc i .saRAcq
  | .saRAcq =>
    let s1 := { s with restartOwner := some i }
    if s1.process.isNone then startProcess s1 i true
    else arrive (({ s1 with restartOwner := none } : State).log (.started i s.clock)) i
  | .saStarted => arrive (({ s with restartOwner := none } : State).log (.started i s.clock)) i
  | .evCond => arrive ((({ s with events := s.events + 1 } : State).notify).log (.eventRet i s.clock)) i
  | .rAcq =>
    if s.trickStopping then afterRestart s i
    else ({ s with restartOwner := some i } : State).setPc i (.spAcq .restart)
  | .spAcq a => stopProcBody s i a
  | .spSleep kt _ a => killLoop s i kt a
  | .rStarted => restartFinish s i
  | .stAcq =>
    if s.trickStopping then arrive (s.log (.stopNoop i s.clock)) i
    else
      let s1 := { s with trickStopping := true }
      s1.setPc i (if s1.debTid.isSome then .stCond else .stRAcq)
  | .stCond =>
    let s1 := match s.debTid with | some d => s.setStopFlag d | none => s
    (s1.notify).setPc i .stRAcq
  | .stRAcq => ({ s with restartOwner := some i } : State).setPc i (.spAcq (.stop s.watchers))
  | .stJoinDeb ws =>
    (match ws with
     | w :: rest => s.setPc i (.stJoinW w rest)
     | [] => stopFinish s i)
  | .stJoinW _ rest =>
    (match rest with
     | w :: rest => s.setPc i (.stJoinW w rest)
     | [] => stopFinish s i)
  | .wWait _ =>
    if t.stopFlag then s.setPc i .done
    else (match t.kind with | .watcher pid => watcherLoop s i pid | _ => s.setPc i .done)
  | .dAcq => debHead { s with condHeld := true } i
  | .dWaitFirst => debHead { s with condHeld := true, notified := false } i
  | .dWaitMore _ =>
    let s1 := { s with condHeld := true, notified := false }
    if s.notified then
      if s1.debRunning then
        ({ s1 with condHeld := false } : State).setPc i (.dWaitMore (s1.clock + s1.cfg.interval))
      else debDeliver s1 i
    else debDeliver s1 i

def step (s : State) (i : Nat) : Option State :=
  match s.threads[i]? with
  | some t => if enabledT s t then some (stepT s i t) else none
  | none => none

inductive Action
  | step (tid : Nat)
  | tick (d : Nat)
  deriving DecidableEq, Repr, Inhabited

def act (s : State) : Action → State
  | .step tid => (step s tid).getD s
  | .tick d => { s with clock := s.clock + d }

def run (s : State) (as : List Action) : State := as.foldl act s

def enabledList (s : State) : List Nat := (List.range s.threads.length).filter (enabled s)

def deadlines (s : State) : List Nat :=
  s.threads.filterMap (fun t => match t.pc with
    | .sleeping dl => some dl
    | .spSleep _ dl _ => some dl
    | .wWait dl => some dl
    | .dWaitMore dl => some dl
    | _ => none)

/-- the scheduler's clock: when nothing can run, jump to the earliest deadline -/
def idleAdvance (s : State) : State :=
  if (enabledList s).isEmpty then
    match (deadlines s).min? with
    | some dl => if s.clock < dl then { s with clock := dl } else s
    | none => s
  else s

/-- children alive now -/
def State.aliveList (s : State) : List Nat := (List.range s.procs.length).filter s.aliveP

end WD.Rst
