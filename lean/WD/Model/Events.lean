/-
  WD.Model.Events — the event class lattice of `watchdog.events` and the handlers' dispatch rules
  (`FileSystemEventHandler.dispatch`, `PatternMatchingEventHandler.dispatch`,
  `RegexMatchingEventHandler.dispatch`, `watchdog.utils.patterns`).
-/
namespace WD

inductive EvClass
  | FileSystemEvent | FileSystemMovedEvent
  | FileDeletedEvent | FileModifiedEvent | FileCreatedEvent | FileMovedEvent
  | FileClosedEvent | FileClosedNoWriteEvent | FileOpenedEvent
  | DirDeletedEvent | DirModifiedEvent | DirCreatedEvent | DirMovedEvent
  deriving DecidableEq, Repr, Inhabited

namespace EvClass

def all : List EvClass :=
  [FileSystemEvent, FileSystemMovedEvent, FileDeletedEvent, FileModifiedEvent, FileCreatedEvent,
   FileMovedEvent, FileClosedEvent, FileClosedNoWriteEvent, FileOpenedEvent, DirDeletedEvent,
   DirModifiedEvent, DirCreatedEvent, DirMovedEvent]

def name : EvClass → String
  | FileSystemEvent => "FileSystemEvent" | FileSystemMovedEvent => "FileSystemMovedEvent"
  | FileDeletedEvent => "FileDeletedEvent" | FileModifiedEvent => "FileModifiedEvent"
  | FileCreatedEvent => "FileCreatedEvent" | FileMovedEvent => "FileMovedEvent"
  | FileClosedEvent => "FileClosedEvent" | FileClosedNoWriteEvent => "FileClosedNoWriteEvent"
  | FileOpenedEvent => "FileOpenedEvent" | DirDeletedEvent => "DirDeletedEvent"
  | DirModifiedEvent => "DirModifiedEvent" | DirCreatedEvent => "DirCreatedEvent"
  | DirMovedEvent => "DirMovedEvent"

def ofName? (s : String) : Option EvClass := all.find? (fun c => c.name == s)

/-- class attribute `event_type` ("" on the abstract base) -/
def eventType : EvClass → String
  | FileSystemEvent => ""
  | FileSystemMovedEvent | FileMovedEvent | DirMovedEvent => "moved"
  | FileDeletedEvent | DirDeletedEvent => "deleted"
  | FileModifiedEvent | DirModifiedEvent => "modified"
  | FileCreatedEvent | DirCreatedEvent => "created"
  | FileClosedEvent => "closed"
  | FileClosedNoWriteEvent => "closed_no_write"
  | FileOpenedEvent => "opened"

/-- class attribute `is_directory` -/
def isDirectory : EvClass → Bool
  | DirDeletedEvent | DirModifiedEvent | DirCreatedEvent | DirMovedEvent => true
  | _ => false

/-- direct base class (`none` for the root) -/
def parent : EvClass → Option EvClass
  | FileSystemEvent => none
  | FileMovedEvent | DirMovedEvent => some FileSystemMovedEvent
  | _ => some FileSystemEvent

/-- `issubclass(c, d)` -/
def isSubclass (c d : EvClass) : Bool :=
  c == d || (match c.parent with
    | some p => p == d || (match p.parent with | some g => g == d | none => false)
    | none => false)

end EvClass

/-- an event object: class + the three dataclass fields that are constructor arguments -/
structure Event where
  cls : EvClass
  src : String
  dest : String := ""
  synthetic : Bool := false
  deriving DecidableEq, Repr, Inhabited

/-- the `on_*` methods of a handler -/
def callbacksOfType : List String :=
  ["moved", "created", "deleted", "modified", "closed", "closed_no_write", "opened"]

inductive DispatchOut
  | calls (l : List String)   -- names of the methods called, in order
  | error (kind : String)     -- exception escaping `dispatch`
  deriving DecidableEq, Repr

/-- `FileSystemEventHandler.dispatch`: `on_any_event`, then `getattr(self, "on_" + event_type)` -/
def baseDispatch (c : EvClass) : DispatchOut :=
  if callbacksOfType.contains c.eventType then .calls ["on_any_event", "on_" ++ c.eventType]
  else .error "AttributeError"   -- raised after on_any_event ran

/-- the paths of an event that take part in matching: destination first, then source; an absent
    (empty) path does not take part -/
def Event.matchPaths (e : Event) : List String :=
  (if e.dest = "" then [] else [e.dest]) ++ (if e.src = "" then [] else [e.src])

/-- `watchdog.utils.patterns._match_path` for one path; `m` is `PurePath.match` of the flavour in
    force (Posix / Windows with lower-cased patterns), `inc`/`exc` the effective pattern sets -/
def matchPath (m : String → String → Bool) (inc exc : List String) (path : String) : Bool :=
  inc.any (m path) && !(exc.any (m path))

structure PatCfg where
  patterns : Option (List String)
  ignorePatterns : Option (List String)
  ignoreDirectories : Bool
  caseSensitive : Bool

def effInc (lower : String → String) (cs : Bool) (inc : Option (List String)) : List String :=
  let l := match inc with | none => ["*"] | some l => l
  if cs then l else l.map lower
def effExc (lower : String → String) (cs : Bool) (exc : Option (List String)) : List String :=
  let l := match exc with | none => [] | some l => l
  if cs then l else l.map lower

/-- `filter_paths` (generator made a list); `none` = ValueError for conflicting patterns,
    which `_match_path` raises when it examines the first path -/
def filterPaths (m : String → String → Bool) (lower : String → String) (cs : Bool)
    (inc exc : Option (List String)) (paths : List String) : Option (List String) :=
  let i := effInc lower cs inc
  let e := effExc lower cs exc
  if paths ≠ [] ∧ i.any (fun p => e.contains p) then none
  else some (paths.filter (matchPath m i e))

/-- `match_any_paths` -/
def matchAnyPaths (m : String → String → Bool) (lower : String → String) (cs : Bool)
    (inc exc : Option (List String)) (paths : List String) : Option Bool :=
  (filterPaths m lower cs inc exc paths).map (fun l => !l.isEmpty)

/-- `PatternMatchingEventHandler.dispatch` -/
def patternDispatch (m : String → String → Bool) (lower : String → String) (cfg : PatCfg) (e : Event) :
    DispatchOut :=
  if cfg.ignoreDirectories && e.cls.isDirectory then .calls []
  else match matchAnyPaths m lower cfg.caseSensitive cfg.patterns cfg.ignorePatterns e.matchPaths with
    | none => .error "ValueError"
    | some true => baseDispatch e.cls
    | some false => .calls []

structure ReCfg where
  regexes : List String          -- after the constructor's defaults ([".*"]) / str -> [str]
  ignoreRegexes : List String
  ignoreDirectories : Bool

/-- `RegexMatchingEventHandler.dispatch`; `rm r p` is `re.compile(r, flags).match(p) is not None` -/
def regexDispatch (rm : String → String → Bool) (cfg : ReCfg) (e : Event) : DispatchOut :=
  if cfg.ignoreDirectories && e.cls.isDirectory then .calls []
  else if cfg.ignoreRegexes.any (fun r => e.matchPaths.any (rm r)) then .calls []
  else if cfg.regexes.any (fun r => e.matchPaths.any (rm r)) then baseDispatch e.cls
  else .calls []

end WD
