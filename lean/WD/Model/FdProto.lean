/-
  WD.Model.FdProto — the descriptor hand-over protocol of `watchdog.observers.inotify_c.Inotify`
  (`close()` vs the reader inside `read_events()`), embedded in `InotifyBuffer.run` / `close`, over a
  kernel that remembers for each of the three descriptors (inotify fd, wake-up pipe read/write end)
  whether it is open, and flags every use after close and every second close.
  Step granularity = harness/detsched.py's visible operations: the three `with self._lock:` regions
  of `read_events`, the blocking `poll`, the delay queue's lock in `put`/`close`, `join`.
-/
namespace WD.Fd

/-- what a batch injected by the kernel makes the reader do -/
inductive Rec
  | plain          -- an ordinary record: one event, one queue put
  | dirCreate      -- CREATE|ISDIR in a recursive watch: `inotify_add_watch` for the new directory, then a put
  | ignoredRoot    -- IN_IGNORED of the root watch (answer to `inotify_rm_watch`): the reader leaves its loop
  deriving DecidableEq, Repr, Inhabited

inductive Fd | ino | killR | killW
  deriving DecidableEq, Repr, Inhabited

inductive Pc
  | begin
  | rAcq1                      -- reader at the first `with self._lock:` of read_events
  | rPoll                      -- reader blocked in poll()
  | rAcq2 (buf : List Rec)     -- after poll/read: second lock region
  | rAcq3 (buf : List Rec)     -- third lock region: parse, add watches
  | rPut (n : Nat) (leave : Bool)   -- `n` queue puts to go; `leave`: the root's IN_IGNORED was seen
  | cAcq                       -- closer at `with self._lock:` of Inotify.close
  | cDq                        -- closer at the delay queue's lock (queue.close)
  | cJoin                      -- closer in join()
  | kInject (rest : List (List Rec))
  | done
  deriving DecidableEq, Repr, Inhabited

/-- kernel-side log: what the fake kernel of the harness records -/
inductive Ev
  | use (fd : Fd) (what : String)          -- a call on an open descriptor
  | useAfterClose (fd : Fd) (what : String)
  | close (fd : Fd)
  | secondClose (fd : Fd)
  deriving DecidableEq, Repr, Inhabited

structure State where
  reader : Pc := .begin
  closer : Pc := .begin
  kernel : Pc := .begin
  plan : List (List Rec) := []
  closed : Bool := false          -- `Inotify._closed`
  isReading : Bool := false       -- `Inotify._is_reading`
  stopFlag : Bool := false        -- the buffer thread's `_stopped_event`
  rootWatched : Bool := true      -- `self._path in self._wd_for_path`
  inoOpen : Bool := true
  killROpen : Bool := true
  killWOpen : Bool := true
  inoData : List Rec := []        -- unread records on the inotify fd
  killData : Bool := false        -- a byte on the wake-up pipe
  log : List Ev := []
  puts : Nat := 0
  deriving Repr, Inhabited

def init (plan : List (List Rec)) : State := { plan := plan }

def State.isOpen (s : State) : Fd → Bool
  | .ino => s.inoOpen | .killR => s.killROpen | .killW => s.killWOpen

/-- a library call that uses descriptor `fd` -/
def State.useFd (s : State) (fd : Fd) (what : String) : State :=
  if s.isOpen fd then { s with log := s.log ++ [.use fd what] }
  else { s with log := s.log ++ [.useAfterClose fd what] }

def State.closeFd (s : State) (fd : Fd) : State :=
  if s.isOpen fd then
    let s1 : State := { s with log := s.log ++ [Ev.close fd] }
    match fd with
    | .ino => { s1 with inoOpen := false }
    | .killR => { s1 with killROpen := false }
    | .killW => { s1 with killWOpen := false }
  else { s with log := s.log ++ [Ev.secondClose fd] }

/-- `_close_resources()` -/
def State.closeResources (s : State) : State := ((s.closeFd .ino).closeFd .killR).closeFd .killW

/-- `while self.should_keep_running() and not deleted_self:` then `read_events()` up to its first lock -/
def readerLoop (s : State) (leave : Bool) : State :=
  if s.stopFlag || leave then { s with reader := .done } else { s with reader := .rAcq1 }

/-- number of queue puts a parsed batch causes, and whether it contains the root's IN_IGNORED -/
def batchPuts (buf : List Rec) : Nat := (buf.filter (· != .ignoredRoot)).length
def batchLeaves (buf : List Rec) : Bool := buf.contains .ignoredRoot

def readerEnabled (s : State) : Bool :=
  match s.reader with
  | .done => false
  | .rPoll => !s.inoData.isEmpty || s.killData
  | _ => true

def readerStep (s : State) : Option State :=
  if !readerEnabled s then none else
  match s.reader with
  | .begin => some (readerLoop s false)
  | .rAcq1 =>
    if s.closed then some (readerLoop s false)          -- `return []`
    else
      -- `_is_reading = True`, leave the lock, enter poll() on both descriptors
      let s1 := { s with isReading := true }
      let s2 := (s1.useFd .ino "poll").useFd .killR "poll"
      some { s2 with reader := .rPoll }
  | .rPoll =>
    if !s.inoData.isEmpty then
      let s1 := s.useFd .ino "read"
      some { s1 with reader := .rAcq2 s.inoData, inoData := [] }
    else some { s with reader := .rAcq2 [] }
  | .rAcq2 buf =>
    let s1 := { s with isReading := false }
    if s1.closed then some (readerLoop s1.closeResources false)
    else some { s1 with reader := .rAcq3 buf }
  | .rAcq3 buf =>
    if s.closed then some (readerLoop s false)           -- re-check: nothing may touch the descriptors now
    else
      let s1 := buf.foldl (fun acc r => if r = .dirCreate then acc.useFd .ino "inotify_add_watch" else acc) s
      let s2 := if batchLeaves buf then { s1 with rootWatched := false } else s1
      match batchPuts buf with
      | 0 => some (readerLoop s2 (batchLeaves buf))
      | n + 1 => some { s2 with reader := .rPut (n + 1) (batchLeaves buf) }
  | .rPut (n + 1) leave =>
    let s1 := { s with puts := s.puts + 1 }
    match n with
    | 0 => some (readerLoop s1 leave)
    | m + 1 => some { s1 with reader := .rPut (m + 1) leave }
  | .rPut 0 leave => some (readerLoop s leave)
  | _ => none

def closerEnabled (s : State) : Bool :=
  match s.closer with
  | .done => false
  | .cJoin => s.reader == .done
  | _ => true

def closerStep (s : State) : Option State :=
  if !closerEnabled s then none else
  match s.closer with
  | .begin => some { s with stopFlag := true, closer := .cAcq }      -- `stop()` sets the flag, then `_inotify.close()`
  | .cAcq =>
    if s.closed then some { s with closer := .cDq }
    else
      let s1 := { s with closed := true }
      let s2 := if s1.rootWatched then
          let t := s1.useFd .ino "inotify_rm_watch"
          if s1.inoOpen then { t with inoData := t.inoData ++ [.ignoredRoot] } else t
        else s1
      let s3 := if s2.isReading then
          let t := s2.useFd .killW "write"
          if s2.killWOpen then { t with killData := true } else t
        else s2.closeResources
      some { s3 with closer := .cDq }
  | .cDq => some { s with closer := .cJoin }
  | .cJoin => some { s with closer := .done }
  | _ => none

def kernelEnabled (s : State) : Bool :=
  match s.kernel with
  | .kInject (_ :: _) => true
  | .begin => true
  | _ => false

def kernelStep (s : State) : Option State :=
  match s.kernel with
  | .begin => some { s with kernel := match s.plan with | [] => .done | _ => .kInject s.plan }
  | .kInject (b :: rest) =>
    some { s with inoData := if s.inoOpen then s.inoData ++ b else s.inoData,
                  kernel := match rest with | [] => .done | _ => .kInject rest }
  | _ => none

/-- thread ids: 0 reader, 1 closer, 2 kernel -/
def step (s : State) : Nat → Option State
  | 0 => readerStep s
  | 1 => closerStep s
  | 2 => kernelStep s
  | _ => none

def enabledList (s : State) : List Nat :=
  (if readerEnabled s then [0] else []) ++ (if closerEnabled s then [1] else []) ++ (if kernelEnabled s then [2] else [])

def run (s : State) (sched : List Nat) : State := sched.foldl (fun s t => (step s t).getD s) s

def allDone (s : State) : Bool := s.reader == .done && s.closer == .done

/-- the kernel calls of `Inotify.__init__`, in order: `inotify_init`, `os.pipe()` (the wake-up channel), then one
    `inotify_add_watch` for the root and each sub-directory -/
inductive CCall
  | init | pipe | addWatch
  deriving DecidableEq, Repr, Inhabited

def ctorCalls (nWatches : Nat) : List CCall := [.init, .pipe] ++ List.replicate nWatches .addWatch

/-- descriptors a successful call opens -/
def CCall.opens : CCall → Nat
  | .init => 1
  | .pipe => 2
  | .addWatch => 0

/-- descriptors the constructor closes when the call fails, before the error propagates: nothing was opened when
    `inotify_init` fails; the inotify descriptor when `pipe()` fails; all three (`_close_resources`) when a watch cannot
    be added -/
def CCall.closesOnFailure : CCall → Nat
  | .init => 0
  | .pipe => 1
  | .addWatch => 3

/-- the calls one after the other; `failAt = some k`: the k-th call (from 0) fails.  Returns the descriptors left open
    and whether the constructor raised. -/
def ctorRun : List CCall → Nat → Option Nat → Nat → Nat × Bool
  | [], _, _, opened => (opened, false)
  | c :: rest, pos, failAt, opened =>
    if failAt = some pos then (opened - c.closesOnFailure, true)
    else ctorRun rest (pos + 1) failAt (opened + c.opens)

def ctor (nWatches : Nat) (failAt : Option Nat) : Nat × Bool := ctorRun (ctorCalls nWatches) 0 failAt 0

/-- a failure that says "the entry is not there any more" (ENOENT, ENOTDIR): at `inotify_init`, `pipe()` or the root's own
    `inotify_add_watch` (calls 0-2) it ends the constructor like any other; at the add-watch of a SUB-directory (calls 3..)
    the walk skips the entry and goes on (repaired defect D25): the constructor succeeds -/
def ctorTol (nWatches : Nat) (failAt : Nat) : Nat × Bool :=
  if 3 ≤ failAt then ctor nWatches none else ctor nWatches (some failAt)

end WD.Fd
