/-
  WD.Model.InoBuffer — the delay queue of WD.Model.DelayQueue (same steps) extended with what
  `InotifyBuffer` adds around it: the reader thread's stop flag check between batches, its final wait
  for close, `close()` = set the stop flag + close the (stub) inotify + close the queue + join the
  reader; and the compilation of scripted native batches into the reader's queue operations
  (`_group_events` + `run`), with the interpretation of the run as a delivered stream of single
  records and (from, to) pairs.
  --- original header of the delay-queue part: ---
  WD.Model.DelayQueue — `watchdog.utils.delayed_queue.DelayedQueue` as a transition system.

  Threads run scripts of API calls; a *step* of a thread is the code between two visible
  operations of the real class (lock acquire, condition wait, sleep, the unlocked write of
  `_closed`) — exactly the granularity at which harness/detsched.py schedules the real code.
  Time is a natural number of ticks (the harness uses 1 tick = 1/8 s, so float arithmetic is exact).
-/
namespace WD.IB

/-- a queued element: `uid` is Python object identity (`is`), `val` what predicates look at -/
structure Elem where
  uid : Nat
  val : Nat
  deriving DecidableEq, Repr, Inhabited

/-- `(element, insert_time, delay)` -/
structure Entry where
  elem : Elem
  ins : Nat
  delayed : Bool
  deriving DecidableEq, Repr, Inhabited

inductive Op
  | put (e : Elem) (delayed : Bool)
  | get
  | remove (val : Nat)        -- `remove(lambda x: x.val == val)`
  | close
  | sleep (d : Nat)
  | setStop                 -- `BaseThread.stop()`: `_stopped_event.set()` and the stub inotify's close (no visible operation)
  | exitIfStopped           -- `while self.should_keep_running()` (no visible operation)
  | waitStop                -- the stub `read_events()` with nothing left to deliver: blocks until closed
  | join (tid : Nat)        -- `Thread.join`
  deriving DecidableEq, Repr, Inhabited

/-- program counter inside the current call -/
inductive Pc
  | begin                      -- thread not yet run
  | putAcq (e : Elem) (delayed : Bool)
  | getAcq                     -- at `_not_empty.acquire()`
  | getWait                    -- inside `_not_empty.wait()`
  | getSleep (head : Entry) (deadline : Nat)
  | getPop (head : Entry)      -- at `with self._lock:` before the identity re-check
  | remAcq (val : Nat)
  | closeFlag                  -- before the unlocked `self._closed = True`
  | closeAcq                   -- at `_not_empty.acquire()` in close
  | sleeping (deadline : Nat)
  | waitingStop
  | joining (tid : Nat)
  | done
  deriving DecidableEq, Repr, Inhabited

/-- what the harness can observe / the ghost history the theorems talk about -/
inductive Obs
  | put (tid : Nat) (e : Elem) (delayed : Bool) (t : Nat)
  | got (tid : Nat) (e : Elem) (t : Nat)
  | gotNone (tid : Nat) (t : Nat)
  | removed (tid : Nat) (e : Elem) (t : Nat)
  | removedNone (tid : Nat) (t : Nat)
  | closed (tid : Nat) (t : Nat)
  deriving DecidableEq, Repr, Inhabited

structure Thread where
  pc : Pc
  script : List Op             -- calls still to make after the current one
  notified : Bool := false
  deriving DecidableEq, Repr, Inhabited

structure State where
  delay : Nat
  clock : Nat
  queue : List Entry
  closed : Bool
  waiters : List Nat           -- tids inside `wait()`, oldest first, not yet notified
  stopFlag : Bool := false     -- the buffer thread's `_stopped_event` (= the stub inotify's closed flag)
  threads : List Thread
  hist : List Obs              -- newest last
  deriving Repr, Inhabited

def init (delay : Nat) (scripts : List (List Op)) : State :=
  { delay := delay, clock := 0, queue := [], closed := false, waiters := [], stopFlag := false,
    threads := scripts.map (fun s => { pc := .begin, script := s }), hist := [] }

def State.thread? (s : State) (tid : Nat) : Option Thread := s.threads[tid]?

def State.setThread (s : State) (tid : Nat) (t : Thread) : State :=
  { s with threads := s.threads.set tid t }

/- the lock is not a field: every step that takes it releases it before the step ends (the real
    code never reaches a visible operation while holding the lock, except `wait`, which releases
    it).  So the lock is always free between steps and "enabled iff lock free" is trivially met. -/

/-- `notify()`: wake the oldest waiter -/
def notifyOne (s : State) : State :=
  match s.waiters with
  | [] => s
  | w :: rest =>
    match s.thread? w with
    | some t => { (s.setThread w { t with notified := true }) with waiters := rest }
    | none => { s with waiters := rest }

/-- the thread has finished a call and runs on to the first visible operation of its next call;
    `setStop` and `exitIfStopped` are not visible operations and are executed on the way -/
def arriveOps (s : State) (tid : Nat) (t : Thread) : List Op → State
  | [] => s.setThread tid { t with pc := .done, script := [] }
  | .setStop :: rest => arriveOps { s with stopFlag := true } tid t rest
  | .exitIfStopped :: rest =>
    if s.stopFlag then s.setThread tid { t with pc := .done, script := [] } else arriveOps s tid t rest
  | op :: rest =>
    let pc := match op with
      | .put e d => Pc.putAcq e d
      | .get => Pc.getAcq
      | .remove v => Pc.remAcq v
      | .close => Pc.closeFlag
      | .sleep d => Pc.sleeping (s.clock + d)
      | .waitStop => Pc.waitingStop
      | .join j => Pc.joining j
      | _ => Pc.done
    s.setThread tid { t with pc := pc, script := rest, notified := false }

def arrive (s : State) (tid : Nat) (t : Thread) : State := arriveOps s tid t t.script

/-- `get`: the code that runs with the lock held after `acquire()` / after waking from `wait()` -/
def getLocked (s : State) (tid : Nat) (t : Thread) : State :=
  match s.queue with
  | [] =>
    if s.closed then
      arrive { s with hist := s.hist ++ [.gotNone tid s.clock] } tid t
    else
      { (s.setThread tid { t with pc := .getWait, notified := false }) with waiters := s.waiters ++ [tid] }
  | head :: _ =>
    if s.closed then
      arrive { s with hist := s.hist ++ [.gotNone tid s.clock] } tid t
    else if head.delayed && s.clock < head.ins + s.delay then
      s.setThread tid { t with pc := .getSleep head (head.ins + s.delay) }
    else
      s.setThread tid { t with pc := .getPop head }

/-- first element whose value satisfies the predicate, and the queue without it -/
def removeFirst (v : Nat) : List Entry → Option (Entry × List Entry)
  | [] => none
  | e :: rest =>
    if e.elem.val = v then some (e, rest)
    else match removeFirst v rest with
      | some (x, r) => some (x, e :: r)
      | none => none

/-- is thread `tid` able to take a step now? -/
def enabled (s : State) (tid : Nat) : Bool :=
  match s.thread? tid with
  | none => false
  | some t =>
    match t.pc with
    | .done => false
    | .getWait => t.notified
    | .getSleep _ dl => dl ≤ s.clock
    | .sleeping dl => dl ≤ s.clock
    | .waitingStop => s.stopFlag
    | .joining j => match s.thread? j with | some tj => tj.pc == .done | none => true
    | _ => true

/-- one scheduling step of thread `tid` (`none` when it is not enabled) -/
def step (s : State) (tid : Nat) : Option State :=
  if !enabled s tid then none else
  match s.thread? tid with
  | none => none
  | some t =>
    match t.pc with
    | .begin => some (arrive s tid t)
    | .putAcq e d =>
      let s1 := { s with queue := s.queue ++ [⟨e, s.clock, d⟩], hist := s.hist ++ [.put tid e d s.clock] }
      let s2 := notifyOne s1
      -- notifyOne may have rewritten the thread list, but never this thread's own entry
      some (arrive s2 tid t)
    | .getAcq => some (getLocked s tid t)
    | .getWait => some (getLocked s tid { t with notified := false })
    | .getSleep head _ => some (s.setThread tid { t with pc := .getPop head })
    | .getPop head =>
      match s.queue with
      | h :: rest =>
        if h.elem.uid = head.elem.uid then
          some (arrive { s with queue := rest, hist := s.hist ++ [.got tid head.elem s.clock] } tid t)
        else some (s.setThread tid { t with pc := .getAcq })
      | [] => some (s.setThread tid { t with pc := .getAcq })
    | .remAcq v =>
      match removeFirst v s.queue with
      | some (e, q) => some (arrive { s with queue := q, hist := s.hist ++ [.removed tid e.elem s.clock] } tid t)
      | none => some (arrive { s with hist := s.hist ++ [.removedNone tid s.clock] } tid t)
    | .closeFlag => some ({ s with closed := true }.setThread tid { t with pc := .closeAcq })
    | .closeAcq =>
      let s1 := notifyOne s
      some (arrive { s1 with hist := s1.hist ++ [.closed tid s1.clock] } tid t)
    | .sleeping _ => some (arrive s tid t)
    | .waitingStop => some (arrive s tid t)
    | .joining _ => some (arrive s tid t)
    | .done => none

/-- environment actions: a thread step, or time passing -/
inductive Action
  | step (tid : Nat)
  | tick (d : Nat)
  deriving DecidableEq, Repr, Inhabited

def act (s : State) : Action → State
  | .step tid => (step s tid).getD s      -- a disabled choice is a no-op
  | .tick d => { s with clock := s.clock + d }

def run (s : State) (as : List Action) : State := as.foldl act s

/- ---- what the driver needs to mirror harness/detsched.py: enabled set and idle time jumps ---- -/

def enabledList (s : State) : List Nat :=
  (List.range s.threads.length).filter (enabled s)

def deadlines (s : State) : List Nat :=
  s.threads.filterMap (fun t => match t.pc with
    | .getSleep _ dl => some dl
    | .sleeping dl => some dl
    | _ => none)

/-- when nobody is enabled and a timer is pending, the clock jumps to the earliest deadline -/
def idleAdvance (s : State) : State :=
  if (enabledList s).isEmpty then
    match (deadlines s).min? with
    | some dl => if s.clock < dl then { s with clock := dl } else s
    | none => s
  else s

end WD.IB

/- ================= InotifyBuffer: batches -> reader script, run -> delivered stream ================= -/
namespace WD.IB

/-- a native record as far as the buffer looks at it -/
structure Rec where
  id : Nat                 -- position in the kernel stream
  cookie : Nat
  movedFrom : Bool
  movedTo : Bool
  ignored : Bool
  deleteSelf : Bool
  isRoot : Bool            -- `src_path == self._inotify.path`
  deriving DecidableEq, Repr, Inhabited

/-- what `_group_events` produces for one batch -/
inductive Item
  | single (r : Rec)
  | pair (f t : Rec)                 -- both halves in this batch
  | lookup (slot : Nat) (t : Rec)    -- MOVED_TO whose partner was looked for in the delay queue (slot-th look-up of the run)
  deriving DecidableEq, Repr, Inhabited

/-- replace the first unmatched MOVED_FROM single with the same cookie by the pair -/
def pairInBatch (t : Rec) : List Item → Option (List Item)
  | [] => none
  | .single r :: rest =>
    if r.movedFrom && r.cookie == t.cookie then some (.pair r t :: rest)
    else (pairInBatch t rest).map (fun l => .single r :: l)
  | it :: rest => (pairInBatch t rest).map (fun l => it :: l)

/-- `_group_events(batch)`: grouped items and the queue look-ups (cookies) made, in order -/
def groupBatch (batch : List Rec) (slot0 : Nat) : List Item × List Nat :=
  batch.foldl (fun (acc : List Item × List Nat) ev =>
    if ev.movedTo then
      match pairInBatch ev acc.1 with
      | some g => (g, acc.2)
      | none => (acc.1 ++ [.lookup (slot0 + acc.2.length) ev], acc.2 ++ [ev.cookie])
    else (acc.1 ++ [.single ev], acc.2)) ([], [])

/-- the queue value by which `remove(matching_from_event)` finds an element: cookie+1 for an
    unmatched MOVED_FROM single, 0 for everything else -/
def itemVal : Item → Nat
  | .single r => if r.movedFrom then r.cookie + 1 else 0
  | _ => 0
def itemDelayed : Item → Bool
  | .single r => r.movedFrom
  | _ => false

structure Compiled where
  ops : List Op                    -- the reader thread's script
  table : List (Nat × Item)        -- put uid -> what was put
  slots : Nat                      -- look-ups so far
  nextUid : Nat
  ended : Bool                     -- the root was deleted: the reader has left its loop

/-- `InotifyBuffer.run` over scripted batches `(gap, records)` -/
def compileBatches : List (Nat × List Rec) → Compiled → Compiled
  | [], c => if c.ended then c else { c with ops := c.ops ++ [.exitIfStopped, .waitStop] }
  | (gap, batch) :: rest, c =>
    if c.ended then c else
    let (items, looks) := groupBatch batch c.slots
    let removes := looks.map (fun ck => Op.remove (ck + 1))
    -- the put loop: IGNORED singles are skipped (root: leave the loop afterwards); DELETE_SELF of the root ends it too
    let step := fun (acc : List Op × List (Nat × Item) × Nat × Bool) (it : Item) =>
      let (ops, tbl, uid, ended) := acc
      match it with
      | .single r =>
        if r.ignored then (ops, tbl, uid, ended || r.isRoot)
        else (ops ++ [.put ⟨uid, itemVal it⟩ (itemDelayed it)], tbl ++ [(uid, it)], uid + 1,
              ended || (r.deleteSelf && r.isRoot))
      | _ => (ops ++ [.put ⟨uid, itemVal it⟩ (itemDelayed it)], tbl ++ [(uid, it)], uid + 1, ended)
    let (puts, tbl, uid, ended) := items.foldl step ([], c.table, c.nextUid, false)
    compileBatches rest
      { ops := c.ops ++ [.exitIfStopped, .sleep gap] ++ removes ++ puts, table := tbl,
        slots := c.slots + looks.length, nextUid := uid, ended := ended }

def compile (batches : List (Nat × List Rec)) : Compiled :=
  compileBatches batches { ops := [], table := [], slots := 0, nextUid := 1, ended := false }

/-- what the consumer receives -/
inductive Delivered
  | one (id : Nat) (t : Nat)
  | two (fromId toId : Nat) (t : Nat)
  | none (t : Nat)
  deriving DecidableEq, Repr, Inhabited

/-- the results of the reader's look-ups, in order -/
def lookups (reader : Nat) (h : List Obs) : List (Option Elem) :=
  h.filterMap (fun o => match o with
    | .removed tid e _ => if tid = reader then some (some e) else none
    | .removedNone tid _ => if tid = reader then some none else none
    | _ => none)

/-- read the run as the stream handed to `InotifyEmitter` -/
def interpret (c : Compiled) (reader : Nat) (h : List Obs) : List Delivered :=
  let looks := lookups reader h
  h.filterMap (fun o => match o with
    | .got _ e t =>
      match ((c.table.find? (fun x => x.1 == e.uid)).map (·.2) : Option Item) with
      | some (.single r) => some (.one r.id t)
      | some (.pair f to) => some (.two f.id to.id t)
      | some (.lookup slot to) =>
        match looks[slot]? with
        | some (some fe) =>
          match ((c.table.find? (fun x => x.1 == fe.uid)).map (·.2) : Option Item) with
          | some (.single f) => some (.two f.id to.id t)
          | _ => some (.one to.id t)
        | _ => some (.one to.id t)
      | none => some (.one 0 t)
    | .gotNone _ t => some (.none t)
    | _ => none)

end WD.IB
