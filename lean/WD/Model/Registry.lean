/-
  WD.Model.Registry — the bookkeeping of `watchdog.observers.api.BaseObserver`
  (`_watches`, `_handlers`, `_emitters`, `_emitter_for_watch`) under sequential API calls, with a
  failure injectable at every emitter construction / start.
  A watch is identified by its key `(path, recursive, event_filter)`: here a `Nat`.
-/
import WD.Base.Assoc
namespace WD.Reg
open WD

abbrev Watch := Nat
abbrev Handler := Nat

/-- where an injected fault strikes -/
inductive Fault
  | none
  | ctor         -- the emitter class raises when constructed
  | start        -- emitter.start() raises
  deriving DecidableEq, Repr, Inhabited

inductive Call
  | schedule (h : Handler) (w : Watch) (f : Fault)
  | unschedule (w : Watch)
  | addHandler (h : Handler) (w : Watch)
  | removeHandler (h : Handler) (w : Watch)
  | unscheduleAll
  | start (failAt : Option Watch)     -- the emitter of that watch fails to start
  | stop
  deriving DecidableEq, Repr, Inhabited

inductive Res
  | ok
  | raised (what : String)
  deriving DecidableEq, Repr, Inhabited

structure Emitter where
  watch : Watch
  id : Nat                -- creation number: distinguishes emitter objects
  started : Bool
  stopped : Bool
  deriving DecidableEq, Repr, Inhabited

structure State where
  handlers : List (Watch × List Handler)     -- `_handlers` (a defaultdict of sets)
  emitters : List Emitter                    -- `_emitters` / `_emitter_for_watch` (kept in step by the code)
  watches : List Watch                       -- `_watches`
  alive : Bool                               -- `self.is_alive()`
  everStarted : Bool
  nextId : Nat
  deriving Repr, Inhabited

def init : State := ⟨[], [], [], false, false, 0⟩

def State.handlersOf (s : State) (w : Watch) : List Handler := (alookup w s.handlers).getD []
def State.emitterOf (s : State) (w : Watch) : Option Emitter := s.emitters.find? (fun e => e.watch == w)

def addH (h : Handler) (l : List Handler) : List Handler := if l.contains h then l else l ++ [h]

/-- `self._handlers[watch].add(h)` -/
def State.addHandler (s : State) (h : Handler) (w : Watch) : State :=
  { s with handlers := ainsert w (addH h (s.handlersOf w)) s.handlers }

/-- one API call -/
def call (s : State) : Call → State × Res
  | .schedule h w f =>
    -- (repaired order: the handler is registered only once the emitter exists)
    match s.emitterOf w with
    | some _ =>
      let s1 := s.addHandler h w
      ({ s1 with watches := if s1.watches.contains w then s1.watches else s1.watches ++ [w] }, .ok)
    | none =>
      if f = .ctor then (s, .raised "ctor")
      else if s.alive ∧ f = .start then ({ s with nextId := s.nextId + 1 }, .raised "start")
      else
        let e : Emitter := ⟨w, s.nextId, s.alive, false⟩
        let s1 := { s with emitters := s.emitters ++ [e], nextId := s.nextId + 1 }
        let s2 := s1.addHandler h w
        ({ s2 with watches := if s2.watches.contains w then s2.watches else s2.watches ++ [w] }, .ok)
  | .unschedule w =>
    match s.emitterOf w with
    | none => (s, .raised "KeyError")
    | some _ =>
      if (alookup w s.handlers).isNone then (s, .raised "KeyError")      -- `del self._handlers[watch]`
      else
        ({ s with handlers := aerase w s.handlers,
                  emitters := s.emitters.filter (fun e => e.watch != w),
                  watches := s.watches.filter (· != w) },
         if s.watches.contains w then .ok else .raised "KeyError")
  | .addHandler h w => (s.addHandler h w, .ok)
  | .removeHandler h w =>
    if (s.handlersOf w).contains h then
      ({ s with handlers := ainsert w ((s.handlersOf w).filter (· != h)) s.handlers }, .ok)
    else ({ s with handlers := ainsert w (s.handlersOf w) s.handlers }, .raised "KeyError")  -- defaultdict creates the key
  | .unscheduleAll => ({ s with handlers := [], emitters := [], watches := [] }, .ok)
  | .start failAt =>
    if s.everStarted then (s, .raised "RuntimeError")   -- threads can only be started once (not explored further)
    else
      match failAt.bind (fun w => s.emitterOf w) with
      | some bad =>
        -- emitters before `bad` (in iteration order) are started, `bad` is removed - and (repaired, D27) its watch with it:
        -- handlers and watch entry go, as in `unschedule`; the observer thread is not started
        ({ s with emitters := s.emitters.filter (fun e => e.watch != bad.watch),
                  handlers := aerase bad.watch s.handlers,
                  watches := s.watches.filter (· != bad.watch) }, .raised "start")
      | none =>
        ({ s with emitters := s.emitters.map (fun e => { e with started := true }), alive := true,
                  everStarted := true }, .ok)
  | .stop =>
    -- `stop()` = set flag, unschedule_all, enqueue sentinel; afterwards (joined) the thread is dead
    ({ s with handlers := [], emitters := [], watches := [], alive := false }, .ok)

def run (s : State) : List Call → State × List Res
  | [] => (s, [])
  | c :: cs =>
    let (s1, r) := call s c
    let (s2, rs) := run s1 cs
    (s2, r :: rs)

/- ---------------- the abstract specification: a map from watches to handler sets ---------------- -/

structure Spec where
  handlers : Watch → List Handler      -- as sets
  scheduled : List Watch               -- as a set
  alive : Bool
  everStarted : Bool

def Spec.init : Spec := ⟨fun _ => [], [], false, false⟩

def specCall (m : Spec) : Call → Spec × Res
  | .schedule h w f =>
    if m.scheduled.contains w then
      ({ m with handlers := fun x => if x = w then addH h (m.handlers w) else m.handlers x }, .ok)
    else if f = .ctor then (m, .raised "ctor")
    else if m.alive ∧ f = .start then (m, .raised "start")
    else ({ m with handlers := fun x => if x = w then addH h (m.handlers w) else m.handlers x,
                   scheduled := m.scheduled ++ [w] }, .ok)
  | .unschedule w =>
    if m.scheduled.contains w then
      ({ m with handlers := fun x => if x = w then [] else m.handlers x,
                scheduled := m.scheduled.filter (· != w) }, .ok)
    else (m, .raised "KeyError")
  | .addHandler h w => ({ m with handlers := fun x => if x = w then addH h (m.handlers w) else m.handlers x }, .ok)
  | .removeHandler h w =>
    if (m.handlers w).contains h then
      ({ m with handlers := fun x => if x = w then (m.handlers w).filter (· != h) else m.handlers x }, .ok)
    else (m, .raised "KeyError")
  | .unscheduleAll => ({ m with handlers := fun _ => [], scheduled := [] }, .ok)
  | .start failAt =>
    if m.everStarted then (m, .raised "RuntimeError")
    else match failAt with
      | some w => if m.scheduled.contains w then
                    ({ m with handlers := fun x => if x = w then [] else m.handlers x,
                              scheduled := m.scheduled.filter (· != w) }, .raised "start")
                  else ({ m with alive := true, everStarted := true }, .ok)
      | none => ({ m with alive := true, everStarted := true }, .ok)
  | .stop => ({ m with handlers := fun _ => [], scheduled := [], alive := false }, .ok)

def specRun (m : Spec) : List Call → Spec × List Res
  | [] => (m, [])
  | c :: cs =>
    let (m1, r) := specCall m c
    let (m2, rs) := specRun m1 cs
    (m2, r :: rs)

end WD.Reg
