/-
  WD.Model.MacEmit — the FSEvents translation layer (`FSEventsEmitter.queue_events`,
  src/watchdog/observers/fsevents.py, without `suppress_history`) over the file-system model of
  WD.Model.Pipeline, and a documented-semantics simulator of the per-file events an FSEvents stream
  (kFSEventStreamCreateFlagFileEvents | WatchRoot) delivers for one operation, including flags that
  stick to an item from its earlier events.  The simulator is an ASSUMPTION about an OS that cannot be
  observed in this sandbox (DESIGN.md §7); the emitter is tied to the real class on every run.
-/
import WD.Model.Pipeline
import WD.Spec.PipelineSpec
namespace WD.Mac
open WD WD.Pipe

/-- `_watchdog_fsevents.NativeEvent`, the flags the emitter looks at (`metaMod` = inode-meta / xattr / owner) -/
structure MEv where
  path : P
  ino : Nat
  isDir : Bool
  created : Bool := false
  removed : Bool := false
  renamed : Bool := false
  modified : Bool := false
  metaMod : Bool := false
  rootChanged : Bool := false
  deriving DecidableEq, Repr, Inhabited

structure MSt where
  fsView : List Nat := []          -- `_fs_view`: inodes already announced
  stopped : Bool := false
  deriving DecidableEq, Repr, Inhabited

def MSt.add (st : MSt) (i : Nat) : MSt := { st with fsView := if st.fsView.contains i then st.fsView else i :: st.fsView }
def MSt.discard (st : MSt) (i : Nat) : MSt := { st with fsView := st.fsView.filter (· != i) }

def evCreated (e : MEv) : List PEv := [mkEv (createdCls e.isDir) e.path, dirMod e.path]
def evRemoved (e : MEv) : List PEv := evDeleted e.isDir e.path
def evModified (e : MEv) : List PEv :=
  if e.modified || e.metaMod then [mkEv (if e.isDir then .DirModifiedEvent else .FileModifiedEvent) e.path] else []

/-- `os.stat(path).st_ino == event.inode` -/
def existsNow (fs : FS) (e : MEv) : Bool :=
  match fs.find? e.path with
  | some x => x.ino == e.ino
  | none => false

/-- the first later event of the batch that carries `renamed` for the same inode -/
def findDst (e : MEv) (rest : List MEv) : Option MEv := rest.find? (fun d => d.renamed && d.ino == e.ino)

/-- one iteration of the `while events:` loop: new state, events queued, the rest of the batch -/
def emitOne (fs : FS) (st : MSt) (e : MEv) (rest : List MEv) : MSt × List PEv × List MEv :=
  let historic := st.fsView.contains e.ino
  let root := fun (st : MSt) (evs : List PEv) (rest : List MEv) =>
    if e.rootChanged then (({ fsView := [], stopped := true } : MSt), evs ++ [mkEv .DirDeletedEvent ["W"]], rest)
    else (st, evs, rest)
  if e.created && e.removed then
    root ((st.add e.ino).discard e.ino) ((if historic then [] else evCreated e) ++ evModified e ++ evRemoved e) rest
  else
    let pre := (if e.created && !historic then evCreated e else []) ++ evModified e
    let st1 := st.add e.ino
    if e.renamed then
      match findDst e rest with
      | some d =>
        let evs := [mkEv (movedCls e.isDir) e.path d.path, dirMod e.path, dirMod d.path] ++ subMoved fs e.path d.path ++
                   evModified d ++ (if d.removed then evRemoved d else [])
        let st2 := if d.removed then st1.discard d.ino else st1
        let rest2 := rest.erase d
        -- (the rest of the loop body: `removed` of the source event, then the root flag)
        root (if e.removed then st2.discard e.ino else st2) (pre ++ evs ++ (if e.removed then evRemoved e else [])) rest2
      | none =>
        if existsNow fs e then
          root (if e.removed then st1.discard e.ino else st1)
               (pre ++ evCreated e ++ subCreated fs e.path ++ (if e.removed then evRemoved e else [])) rest
        else
          -- moved out: `continue` (neither `removed` nor the root flag is looked at)
          (st1.discard e.ino, pre ++ evRemoved e, rest)
    else
      root (if e.removed then st1.discard e.ino else st1) (pre ++ (if e.removed then evRemoved e else [])) rest

theorem erase_length_le (d : MEv) (rest : List MEv) : (rest.erase d).length ≤ rest.length := by
  rw [List.length_erase]; split <;> omega

/-- the whole batch (`fuel` = number of events left: every iteration consumes at least one) -/
def emitLoop (fs : FS) : Nat → MSt → List MEv → MSt × List PEv
  | 0, st, _ => (st, [])
  | _ + 1, st, [] => (st, [])
  | fuel + 1, st, e :: rest =>
    let r := emitOne fs st e rest
    let r2 := emitLoop fs fuel r.1 r.2.2
    (r2.1, r.2.1 ++ r2.2)

/-- `queue_event`'s filter of a non-recursive watch (`_is_recursive_event`) -/
def keepFlat (e : PEv) : Bool :=
  let src := if e.cls.isDirectory then e.src else parentOf e.src
  src == ["W"] || (e.cls.eventType == "moved" && parentOf e.dest == ["W"])

/-- one callback: `queue_events(timeout, events)` -/
def emitBatch (fs : FS) (recursive : Bool) (st : MSt) (evs : List MEv) : MSt × List PEv :=
  let r := emitLoop fs evs.length st evs
  (r.1, if recursive then r.2 else r.2.filter keepFlat)

/- ---------------------------- documented-semantics simulator ---------------------------- -/

def inW (p : P) : Bool := isUnder ["W"] p

/-- the per-file events of one operation (the stream watches `W`; every path below it is reported, whatever the
    watch's `recursive` flag: FSEvents streams are always recursive) -/
def macEvents (fs : FS) (op : Op) : List MEv :=
  let item := fun (p : P) (f : MEv → MEv) =>
    match fs.find? p with
    | some x => if inW p then [f { path := p, ino := x.ino, isDir := x.isDir }] else []
    | none => []
  match op with
  | .create p => if inW p then [{ path := p, ino := fs.nextIno, isDir := false, created := true }] else []
  | .mkdir p => if inW p then [{ path := p, ino := fs.nextIno, isDir := true, created := true }] else []
  | .write p => item p (fun e => { e with modified := true })
  | .chmod p => item p (fun e => { e with metaMod := true })
  | .unlink p => item p (fun e => { e with removed := true })
  | .rmdir p =>
    if p == ["W"] then [{ path := ["W"], ino := 0, isDir := true, rootChanged := true }]
    else item p (fun e => { e with removed := true })
  | .rmtree p => ((canonOrder fs p) ++ [p]).flatMap (fun q => item q (fun e => { e with removed := true }))
  | .rmtreeOrd p order => (order ++ [p]).flatMap (fun q => item q (fun e => { e with removed := true }))
  | .rename p q =>
    match fs.find? p with
    | some x =>
      (if inW p then [{ path := p, ino := x.ino, isDir := x.isDir, renamed := true }] else []) ++
      (if inW q then [{ path := q, ino := x.ino, isDir := x.isDir, renamed := true }] else [])
    | none => []

/-- flags that may stick to an event from earlier events of the same item at the same path -/
structure Sticky where
  created : Bool := false
  modified : Bool := false
  metaMod : Bool := false
  deriving DecidableEq, Repr, Inhabited

def MEv.stick (e : MEv) (s : Sticky) : MEv :=
  { e with created := e.created || s.created, modified := e.modified || s.modified, metaMod := e.metaMod || s.metaMod }

/-- what the stream has reported so far per (inode, path): the flags that may re-appear -/
abbrev Seen := List ((Nat × P) × Sticky)

def Seen.get (h : Seen) (i : Nat) (p : P) : Sticky := ((h.find? (fun x => x.1 == (i, p))).map (·.2)).getD {}
def Seen.note (h : Seen) (e : MEv) : Seen :=
  let old := h.get e.ino e.path
  ((e.ino, e.path), { created := old.created || e.created, modified := old.modified || e.modified, metaMod := old.metaMod || e.metaMod }) ::
    h.filter (fun x => x.1 != (e.ino, e.path))

/-- a sticky choice is allowed if every flag it adds was carried by an earlier event of the same item and path -/
def Sticky.allowed (h : Seen) (e : MEv) (s : Sticky) : Bool :=
  let old := h.get e.ino e.path
  (!s.created || old.created) && (!s.modified || old.modified) && (!s.metaMod || old.metaMod)

/-- the native events of an operation with sticky flags added, event by event -/
def stickAll (evs : List MEv) (ss : List Sticky) : List MEv := List.zipWith MEv.stick evs ss

/- ---------------------------- the contract of the FSEvents layer ---------------------------- -/

/-- the events one operation must produce on macOS (recursive watch), and whether the emitter stops -/
def macContract (fs : FS) (op : Op) : List PEv × Bool :=
  let fs1 := fsAfter fs op
  let rm := fun (q : P) => match fs.find? q with
    | some x => if inW q then evDeleted x.isDir q else []
    | none => []
  match op with
  | .create p => (if inW p then [mkEv .FileCreatedEvent p, dirMod p] else [], false)
  | .mkdir p => (if inW p then [mkEv .DirCreatedEvent p, dirMod p] else [], false)
  | .write p => (if inW p && fs.exists p then [mkEv .FileModifiedEvent p] else [], false)
  | .chmod p =>
    (match fs.find? p with
     | some x => if inW p then [mkEv (if x.isDir then .DirModifiedEvent else .FileModifiedEvent) p] else []
     | none => [], false)
  | .unlink p => (rm p, false)
  | .rmdir p => if p == ["W"] then ([mkEv .DirDeletedEvent ["W"]], true) else (rm p, false)
  | .rmtree p => (((canonOrder fs p) ++ [p]).flatMap rm, false)
  | .rmtreeOrd p order => ((order ++ [p]).flatMap rm, false)
  | .rename p q =>
    match fs.find? p with
    | none => ([], false)
    | some x =>
      if inW p && inW q then ([mkEv (movedCls x.isDir) p q, dirMod p, dirMod q] ++ subMoved fs1 p q, false)
      else if inW p then (evDeleted x.isDir p, false)
      else if inW q then ([mkEv (createdCls x.isDir) q, dirMod q] ++ subCreated fs1 q, false)
      else ([], false)

/- ---------------------------- a whole history, every operation drained ---------------------------- -/

structure MSys where
  fs : FS
  st : MSt := {}
  recursive : Bool
  deriving Repr, Inhabited

def MSys.op (s : MSys) (op : Op) : MSys × List PEv :=
  let fs1 := fsAfter s.fs op
  if s.st.stopped then ({ s with fs := fs1 }, [])
  else
    let r := emitBatch fs1 s.recursive s.st (macEvents s.fs op)
    ({ s with fs := fs1, st := r.1 }, r.2)

def MSys.run (s : MSys) : List Op → MSys × List (List PEv)
  | [] => (s, [])
  | op :: rest =>
    let (s1, evs) := s.op op
    let (s2, more) := s1.run rest
    (s2, evs :: more)

/-- a drained history in which every operation's native events carry the given extra (sticky) flags -/
def MSys.runSticky (s : MSys) : List (Op × List Sticky) → MSys × List (List PEv)
  | [] => (s, [])
  | (op, ss) :: rest =>
    let fs1 := fsAfter s.fs op
    if s.st.stopped then
      let r := ({ s with fs := fs1 } : MSys).runSticky rest
      (r.1, [] :: r.2)
    else
      let b := emitBatch fs1 s.recursive s.st (stickAll (macEvents s.fs op) ss)
      let r := ({ s with fs := fs1, st := b.1 } : MSys).runSticky rest
      (r.1, b.2 :: r.2)

/-- one list of sticky choices per operation, as long as the operation's list of native events -/
def stickyLens (fs : FS) : List (Op × List Sticky) → Prop
  | [] => True
  | (op, ss) :: rest => ss.length = (macEvents fs op).length ∧ stickyLens (fsAfter fs op) rest

def macContractRun (fs : FS) : List Op → List (List PEv)
  | [] => []
  | op :: rest =>
    let c := macContract fs op
    c.1 :: (if c.2 then rest.map (fun _ => []) else macContractRun (fsAfter fs op) rest)

end WD.Mac
