/-
  WD.Model.PathType — how event paths are built from the watched path and the entries' names, per backend, and
  which Python type they have.  `B` = bytes (lists of byte values), `S` = str; `enc`/`dec` stand for
  os.fsencode / os.fsdecode (surrogateescape) and are PARAMETERS: what the theorems assume about them is stated
  as hypotheses and listed in the trusted base.
-/
namespace WD.PT

abbrev B := List Nat

/-- the argument of `schedule()` -/
inductive WatchArg (S : Type)
  | strPath (s : S)        -- a str
  | bytesPath (b : B)      -- bytes
  | pathObj (s : S)        -- a pathlib.Path: `ObservedWatch` stores str(path)

/-- an event path: str or bytes -/
inductive EvPath (S : Type)
  | s (v : S)
  | b (v : B)

def joinB (a n : B) : B := a ++ [47] ++ n          -- os.path.join on bytes (relative name, no trailing slash on `a`)

structure Codec (S : Type) where
  enc : S → B
  dec : B → S
  joinS : S → S → S                                 -- os.path.join on str

variable {S : Type}

def WatchArg.isBytes : WatchArg S → Bool
  | .bytesPath _ => true
  | _ => false

/-- `watch.path` as the observer stores it -/
def WatchArg.stored : WatchArg S → EvPath S
  | .strPath s => .s s
  | .bytesPath b => .b b
  | .pathObj s => .s s

/-- `os.fsencode(watch.path)` — what the inotify layer works with -/
def WatchArg.rootB (c : Codec S) : WatchArg S → B
  | .strPath s => c.enc s
  | .bytesPath b => b
  | .pathObj s => c.enc s

/-- `InotifyEmitter._decode_path` -/
def decodePath (c : Codec S) (w : WatchArg S) (p : B) : EvPath S := if w.isBytes then .b p else .s (c.dec p)

/-- native backend: the path of an entry with relative name components `rel` (inotify builds
    `os.path.join(wd_path, name)` on bytes level by level, the emitter decodes at the end) -/
def nativePath (c : Codec S) (w : WatchArg S) (rel : List B) : EvPath S :=
  decodePath c w (rel.foldl joinB (w.rootB c))

/-- native backend, synthetic events: `generate_sub_*_events` walk the DECODED directory path: the names come
    from os.walk on a str (already decoded by the OS layer) or on bytes, and are joined in that type -/
def nativeSubPath (c : Codec S) (w : WatchArg S) (dir : List B) (below : List B) : EvPath S :=
  match nativePath c w dir with
  | .b p => .b (below.foldl joinB p)
  | .s p => .s (below.foldl (fun a n => c.joinS a (c.dec n)) p)

/-- polling backend: `DirectorySnapshot` walks `watch.path` in the type it was given -/
def pollingPath (c : Codec S) (w : WatchArg S) (rel : List B) : EvPath S :=
  match w.stored with
  | .b p => .b (rel.foldl joinB p)
  | .s p => .s (rel.foldl (fun a n => c.joinS a (c.dec n)) p)

def EvPath.isBytes : EvPath S → Bool
  | .b _ => true
  | .s _ => false

/-- converting an event path back with the file-system encoding -/
def EvPath.raw (c : Codec S) : EvPath S → B
  | .b p => p
  | .s p => c.enc p

end WD.PT
