/-
  WD.Model.PipelineBurst — the native pipeline when operations are issued back to back, faster than
  the observer drains them: the kernel queues the records of the whole burst, the reader is held off
  until the last operation is done and then reads everything in one batch, looking at the file
  system as it is THEN.
-/
import WD.Model.Pipeline
import WD.Spec.PipelineSpec
namespace WD.Pipe

/-- the kernel side of a burst -/
def kernelOps (fs : FS) (k : Kern) : List Op → FS × Kern × List NRec
  | [] => (fs, k, [])
  | op :: rest =>
    let (fs1, k1, r1) := kernelOp fs k op
    let (fs2, k2, r2) := kernelOps fs1 k1 rest
    (fs2, k2, r1 ++ r2)

/-- where a path is by the time the emitter gets to an unmatched MOVED_FROM (half a second after the record was read):
    every matched rename of a directory above it that was read later has re-keyed the book-keeping -/
def rewriteBy (later : List Grouped) (p : P) : P :=
  later.foldl (fun p g => match g with
    | .two f t => if f.isDir && isUnder f.src p then t.src ++ p.drop f.src.length else p
    | .one _ => p) p

/-- the directories that left the tree, under the paths their watches are known by when the emitter forgets them:
    `remove_tree_watches(src_path, cookie)` looks the departed directory's own watch up (repaired defect D21 - the path
    of the record itself is stale once an ancestor has been renamed in the meantime) -/
def movedOutNow : List Grouped → List P
  | [] => []
  | .one e :: rest =>
    if e.flag == .movedFrom && e.isDir then rewriteBy rest e.src :: movedOutNow rest else movedOutNow rest
  | .two _ _ :: rest => movedOutNow rest

/-- a burst of one operation is the drained regime: nothing is read between the record and the emitter's turn, the
    record's own path is current -/
def departed (n : Nat) (gs : List Grouped) : List P := if n ≤ 1 then movedOut gs else movedOutNow gs

/-- a whole burst, read in one batch after its last operation -/
def Sys.burst (s : Sys) (ops : List Op) : Sys × List PEv :=
  let (fs1, k1, recs) := kernelOps s.fs s.k ops
  if s.stopped || s.crashed then ({ s with fs := fs1, k := k1 }, [])
  else
    match libBatch fs1 k1 s.lib recs with
    | none => ({ s with fs := fs1, k := k1, crashed := true }, [])
    | some (k2, lib2, levs) =>
      let gs := gsOf levs
      let (evs, stop) := emitAll fs1 lib2.recursive s.full gs
      match forgetAll fs1 k2 lib2 (if lib2.recursive then departed ops.length gs else []) with
      | none => ({ s with fs := fs1, k := k2, lib := lib2, crashed := true }, evs)
      | some (k3, lib3) => ({ s with fs := fs1, k := k3, lib := lib3, stopped := stop }, evs)

/-- operations whose records never touch the library's watch maps: file creation, writes, attribute changes (of files
    and directories), file removal -/
def simpleKind : Op → Bool
  | .create _ | .write _ | .chmod _ | .unlink _ => true
  | _ => false

/-- a file operation: a simple one, or the rename / move / replacement of a file -/
def fileKind (fs : FS) : Op → Bool
  | .rename p _ => fs.isFile p
  | op => simpleKind op

/-- executable twin of the hypothesis of `burst_files` -/
def allFileB (s : Sys) (ops : List Op) : Bool :=
  (ops.foldl (fun (acc : FS × Bool) op => ((kernelOp acc.1 s.k op).1, acc.2 && validOp acc.1 op && fileKind acc.1 op)) (s.fs, true)).2

/-- executable twin of the hypothesis of `burst_flat`: valid operations, none removing the watched root -/
def allValidNoRootB (s : Sys) (ops : List Op) : Bool :=
  (ops.foldl (fun (acc : FS × Bool) op => ((kernelOp acc.1 s.k op).1, acc.2 && validOp acc.1 op && (op != .rmdir ["W"]))) (s.fs, true)).2

/-- every operation of the burst is valid when it is issued and of a simple kind (executable twin of the hypothesis of
    `burst_simple`; the validity of an operation only depends on the file system, which only the kernel side changes) -/
def allSimpleB (s : Sys) (ops : List Op) : Bool :=
  (ops.foldl (fun (acc : FS × Bool) op => ((kernelOp acc.1 s.k op).1, acc.2 && validOp acc.1 op && simpleKind op)) (s.fs, true)).2

/-- a paced history: bursts of operations, each burst issued back to back and read in one batch after its last operation
    (a burst of one operation is a drained operation) -/
def Sys.runBursts (s : Sys) : List (List Op) → Sys × List (List PEv)
  | [] => (s, [])
  | b :: rest =>
    let (s1, evs) := s.burst b
    let (s2, more) := s1.runBursts rest
    (s2, evs :: more)

/-- operations that only add entries: `mkdir` and file creation (a `mkdir -p` + populate burst) -/
def growKind : Op → Bool
  | .mkdir _ | .create _ => true
  | _ => false

/-- the created events of a delivered stream: (path, is a directory) -/
def createdOf (evs : List PEv) : List (P × Bool) :=
  evs.filterMap (fun e => if e.cls.eventType = "created" then some (e.src, e.cls.isDirectory) else none)

/-- executable twin of the hypothesis of the Windows layer's `burst_grow` -/
def allGrowB (s : Sys) (ops : List Op) : Bool :=
  (ops.foldl (fun (acc : FS × Bool) op => ((kernelOp acc.1 s.k op).1, acc.2 && validOp acc.1 op && growKind op)) (s.fs, true)).2

/-- operations that touch an entry without changing the tree: writing a file, changing attributes -/
def touchKind : Op → Bool
  | .write _ | .chmod _ => true
  | _ => false

/-- a populate burst: directories and files are created (at any depth), files written, attributes changed -/
def fillKind (op : Op) : Bool := growKind op || touchKind op

/-- executable twin of the hypothesis of `burst_grow` -/
def allFillB (s : Sys) (ops : List Op) : Bool :=
  (ops.foldl (fun (acc : FS × Bool) op => ((kernelOp acc.1 s.k op).1, acc.2 && validOp acc.1 op && fillKind op)) (s.fs, true)).2

/-- "created and immediately renamed": `mkdir p; rename p q`, both parents directories of the tree, `q` a free name -/
def mkRenameB (s : Sys) (b : List Op) : Bool :=
  match b with
  | [.mkdir p, .rename p' q] =>
    p == p' && validOp s.fs (.mkdir p) && decide (2 ≤ q.length) && !s.fs.exists q && (p != q) && s.fs.isDir (parentOf q) &&
      watchedDir s.fs true (parentOf p) && watchedDir s.fs true (parentOf q)
  | _ => false

/-- "renamed again right after it arrived": `rename o q1; rename q1 q2` - `o` a directory outside the watched tree, `q1`
    and `q2` free names in directories of the tree -/
def moveInRenameB (s : Sys) (b : List Op) : Bool :=
  match b with
  | [.rename o q1, .rename q1' q2] =>
    q1 == q1' && s.fs.isDir o && decide (2 ≤ o.length) && decide (2 ≤ q1.length) && decide (2 ≤ q2.length) &&
      !s.fs.exists q1 && !s.fs.exists q2 && s.fs.isDir (parentOf q1) && s.fs.isDir (parentOf q2) && (o != q1) && (o != q2) &&
      !isUnder o q1 && !isUnder o q2 && (q1 != q2) && !isUnder q1 q2 && !watchedDir s.fs true (parentOf o) &&
      watchedDir s.fs true (parentOf q1) && watchedDir s.fs true (parentOf q2)
  | _ => false

/-- "renamed twice in a row": `rename a b; rename b c` - `a` a directory of the watched tree, `b` and `c` free names in
    directories of the tree that do not lie inside `a` -/
def renameChainB (s : Sys) (b : List Op) : Bool :=
  match b with
  | [.rename a b1, .rename b1' c] =>
    b1 == b1' && s.fs.isDir a && decide (2 ≤ a.length) && decide (2 ≤ b1.length) && decide (2 ≤ c.length) &&
      !s.fs.exists b1 && !s.fs.exists c && s.fs.isDir (parentOf b1) && s.fs.isDir (parentOf c) && (a != b1) && (a != c) &&
      !isUnder a b1 && !isUnder a c && (b1 != c) && !isUnder b1 c && watchedDir s.fs true (parentOf a) &&
      watchedDir s.fs true (parentOf b1) && watchedDir s.fs true (parentOf c)
  | _ => false

/-- executable twin of `okBurst` / `pacedOK` (hypothesis of `paced_run`): every burst is a burst of file operations, a
    nested creation burst, a directory created and immediately renamed, a directory that arrived from outside and is
    renamed at once, a directory of the tree renamed twice in a row, or one valid operation other than the removal of
    the root -/
def okBurstB (s : Sys) (b : List Op) : Bool :=
  allFileB s b || allFillB s b || mkRenameB s b || moveInRenameB s b || renameChainB s b ||
    (match b with
     | [op] => validOp s.fs op && (op != .rmdir ["W"])
     | _ => false)

def pacedOKB (s : Sys) : List (List Op) → Bool
  | [] => true
  | b :: rest => okBurstB s b && pacedOKB (s.burst b).1 rest

end WD.Pipe
