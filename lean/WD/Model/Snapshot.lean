/-
  WD.Model.Snapshot — model of `watchdog.utils.dirsnapshot.DirectorySnapshot` (the two
  dictionaries) and `DirectorySnapshotDiff.__init__`, following the source line by line with
  insertion-ordered lists standing for Python sets/dicts.
-/
import WD.Base.Assoc
namespace WD

abbrev Path := String

/-- the fields of `os.stat_result` the library reads -/
structure Stat where
  ino : Nat
  dev : Nat
  isdir : Bool
  mtime : Nat
  size : Nat
  deriving DecidableEq, Repr, Inhabited

/-- `(st_ino, st_dev)` -/
abbrev FileId := Nat × Nat
def Stat.id (s : Stat) : FileId := (s.ino, s.dev)

/-- `DirectorySnapshot`: `_stat_info` and `_inode_to_path` -/
structure Snap where
  stats : List (Path × Stat)
  byId : List (FileId × Path)
  deriving Repr

def Snap.empty : Snap := ⟨[], []⟩

/-- `__init__`: `for p, st in [root] ++ walk: _inode_to_path[id] = p; _stat_info[p] = st` -/
def Snap.build (entries : List (Path × Stat)) : Snap :=
  entries.foldl (fun s e => ⟨ainsert e.1 e.2 s.stats, ainsert e.2.id e.1 s.byId⟩) Snap.empty

def Snap.paths (s : Snap) : List Path := akeys s.stats
def Snap.stat? (s : Snap) (p : Path) : Option Stat := alookup p s.stats
/-- `snapshot.path(uid)` followed by Python truthiness (`if new_path:`) -/
def Snap.pathOf (s : Snap) (i : FileId) : Option Path :=
  match alookup i s.byId with
  | some p => if p = "" then none else some p
  | none => none
/-- `snapshot.inode(p)`; `none` stands for `KeyError` -/
def Snap.inode? (s : Snap) (p : Path) : Option FileId := (s.stat? p).map Stat.id
def Snap.isdirD (s : Snap) (p : Path) : Bool := match s.stat? p with | some st => st.isdir | none => false

/-- `get_inode(directory, path)` -/
def getInode (ignoreDevice : Bool) (s : Snap) (p : Path) : Option FileId :=
  (s.stat? p).map (fun st => if ignoreDevice then (st.ino, 0) else st.id)

def dataDiffers (a b : Stat) : Bool := a.mtime != b.mtime || a.size != b.size

structure Diff where
  created : List Path
  deleted : List Path
  moved : List (Path × Path)
  modified : List Path
  deriving Repr

/-- `created = snapshot.paths - ref.paths`, then the "unchanged paths have the same inode" loop -/
def created1 (ign : Bool) (ref snap : Snap) : List Path :=
  snap.paths.filter (fun p => !(ref.paths.contains p) || getInode ign ref p != getInode ign snap p)

def deleted1 (ign : Bool) (ref snap : Snap) : List Path :=
  ref.paths.filter (fun p => !(snap.paths.contains p) || getInode ign ref p != getInode ign snap p)

/-- first "find moved paths" loop: `for path in set(deleted)` -/
def movedFromDeleted (ref snap : Snap) (del : List Path) : List (Path × Path) :=
  del.filterMap (fun p => match ref.inode? p with
    | some i => (snap.pathOf i).map (fun q => (p, q))
    | none => none)

def deleted2 (ref snap : Snap) (del : List Path) : List Path :=
  del.filter (fun p => match ref.inode? p with
    | some i => (snap.pathOf i).isNone
    | none => true)

/-- second loop: `for path in set(created)` -/
def movedFromCreated (ref snap : Snap) (cr : List Path) : List (Path × Path) :=
  cr.filterMap (fun p => match snap.inode? p with
    | some i => (ref.pathOf i).map (fun q => (q, p))
    | none => none)

def created2 (ref snap : Snap) (cr : List Path) : List Path :=
  cr.filter (fun p => match snap.inode? p with
    | some i => (ref.pathOf i).isNone
    | none => true)

/-- set union of the two `moved.add` loops -/
def unionPairs (a b : List (Path × Path)) : List (Path × Path) :=
  a ++ b.filter (fun x => !(a.contains x))

def modifiedUnmoved (ign : Bool) (ref snap : Snap) : List Path :=
  ref.paths.filter (fun p => snap.paths.contains p && getInode ign ref p == getInode ign snap p &&
    (match ref.stat? p, snap.stat? p with
     | some a, some b => dataDiffers a b
     | _, _ => false))

def modifiedMoved (ref snap : Snap) (mv : List (Path × Path)) : List Path :=
  (mv.filter (fun x => match ref.stat? x.1, snap.stat? x.2 with
     | some a, some b => dataDiffers a b
     | _, _ => false)).map Prod.fst

def unionPaths (a b : List Path) : List Path := a ++ (b.filter (fun x => !(a.contains x))).eraseDups

def diff (ign : Bool) (ref snap : Snap) : Diff :=
  let c1 := created1 ign ref snap
  let d1 := deleted1 ign ref snap
  let mv := unionPairs (movedFromDeleted ref snap d1) (movedFromCreated ref snap c1)
  { created := created2 ref snap c1
    deleted := deleted2 ref snap d1
    moved := mv
    modified := unionPaths (modifiedUnmoved ign ref snap) (modifiedMoved ref snap mv) }

/-- the eight public lists -/
structure DiffLists where
  filesCreated : List Path
  filesDeleted : List Path
  filesModified : List Path
  filesMoved : List (Path × Path)
  dirsCreated : List Path
  dirsDeleted : List Path
  dirsModified : List Path
  dirsMoved : List (Path × Path)
  deriving Repr

def Diff.lists (d : Diff) (ref snap : Snap) : DiffLists :=
  let dc := d.created.filter snap.isdirD
  let dd := d.deleted.filter ref.isdirD
  let dm := d.modified.filter ref.isdirD
  let dv := d.moved.filter (fun x => ref.isdirD x.1)
  { dirsCreated := dc, dirsDeleted := dd, dirsModified := dm, dirsMoved := dv
    filesCreated := d.created.filter (fun p => !(dc.contains p))
    filesDeleted := d.deleted.filter (fun p => !(dd.contains p))
    filesModified := d.modified.filter (fun p => !(dm.contains p))
    filesMoved := d.moved.filter (fun x => !(dv.contains x)) }

/-- "every inode has one path": the two dictionaries are mutually inverse, keys unique,
    no empty path (an empty path would be falsy in `if new_path:`) -/
structure Snap.WF (s : Snap) : Prop where
  statsNodup : keysNodup s.stats
  byIdNodup : keysNodup s.byId
  inv : ∀ i p, alookup i s.byId = some p ↔ ∃ st, alookup p s.stats = some st ∧ st.id = i
  nonempty : ∀ p, p ∈ s.paths → p ≠ ""

end WD
