/-
  WD.Model.Observer — `watchdog.observers.api.BaseObserver` with its dispatcher thread, scripted
  emitter threads, client threads calling the API, and handler callbacks calling the API
  re-entrantly, as a transition system.  A step of a thread = the code between two visible
  operations (acquire of the observer's RLock by a non-owner, Thread.start, Thread.join, Event.wait,
  the emitter's explicit yield before each emission, the dispatcher's blocking queue.get) — the
  granularity at which harness/detsched.py schedules the real classes (with the event queue
  abstracted as atomic: its own interleavings are C16's subject).
  Sets of handlers/emitters are kept sorted by id: the harness gives the real objects hashes equal
  to their ids, which makes CPython's set iteration order the ascending one.
-/
import WD.Base.Assoc
namespace WD.Obs
open WD

abbrev Wid := Nat
abbrev Hid := Nat
abbrev Eid := Nat

inductive Op
  | schedule (h : Hid) (w : Wid) (fault : Nat)   -- 0 none, 1 emitter constructor raises, 2 emitter start raises
  | unschedule (w : Wid)
  | addHandler (h : Hid) (w : Wid)
  | removeHandler (h : Hid) (w : Wid)
  | unscheduleAll
  | start
  | stop
  | join
  | raiseExc           -- (in a callback) the handler raises
  deriving DecidableEq, Repr, Inhabited

/-- queue entries: `(event, watch)` tuples (fresh object per put: `uid`) or the stop sentinel -/
inductive QItem
  | ev (uid : Nat) (w : Wid) (v : Nat)
  | stop
  deriving DecidableEq, Repr, Inhabited

/-- `item != other` on queue items (tuples compare by value, the sentinel by identity) -/
def QItem.valEq : QItem → QItem → Bool
  | .ev _ w v, .ev _ w' v' => w == w' && v == v'
  | .stop, .stop => true
  | _, _ => false
/-- `item is other` -/
def QItem.same : QItem → QItem → Bool
  | .ev u _ _, .ev u' _ _ => u == u'
  | .stop, .stop => true
  | _, _ => false

inductive Pc
  | begin
  | acq (op : Op)                               -- at `with self._lock:` of an API call (not owner)
  | schedStarted (h : Hid) (w : Wid) (e : Eid)  -- after Thread.start of the new emitter, lock held
  | unschedJoin (w : Wid) (e : Eid)             -- in emitter.join(), lock held
  | uallJoin (es : List Eid) (forStop : Bool)   -- joining the emitters one by one, lock held
  | startEm (es : List Eid)                     -- observer.start(): after Thread.start of an emitter
  | startD                                      -- after Thread.start of the dispatcher
  | joinD                                       -- in observer.join()
  | dWait                                       -- dispatcher inside queue.get(block=True)
  | dLock (uid : Nat) (w : Wid) (v : Nat)       -- dispatcher at `with self._lock:` for an entry
  | eEmit                                       -- emitter at its yield before an emission
  | eWait                                       -- emitter in stopped_event.wait()
  | done
  deriving DecidableEq, Repr, Inhabited

inductive Kind
  | client
  | dispatcher
  | emitter (e : Eid)
  deriving DecidableEq, Repr, Inhabited

/-- what is observable (the harness logs exactly these) -/
inductive Obs
  | enq (w : Wid) (v : Nat) (uid : Nat)
  | enqStop
  | drop (w : Wid) (v : Nat)
  | dropStop
  | call (h : Hid) (w : Wid) (v : Nat) (uid : Nat)
  | ret (label : String) (idx : Nat) (res : String)
  | died (name : String)         -- a thread ended with an uncaught exception
  -- ghost observations (not visible to the harness; what the theorems talk about)
  | reg (h : Hid) (w : Wid)              -- `_handlers[w].add(h)`
  | unreg (h : Hid) (w : Wid)            -- `_handlers[w].remove(h)`
  | unregW (w : Wid)                     -- `del _handlers[w]`
  | unregAll                             -- `_handlers.clear()`
  | did (op : Op) (res : String)         -- an API call returned (logged just before its `ret`)
  | dispatch (uid : Nat) (w : Wid) (hs : List Hid)   -- the dispatcher copied the handler set of `w` for entry `uid`
  | skip (h : Hid) (uid : Nat)           -- membership re-check failed at h's turn
  | dispatchEnd (uid : Nat)
  deriving DecidableEq, Repr, Inhabited

structure Thread where
  name : String
  kind : Kind
  pc : Pc
  ops : List Op := []          -- calls still to make (client: its script; dispatcher: the running callback's)
  idx : Nat := 0               -- index of the call in progress
  label : String := ""         -- who the calls are logged for ("0", "cb1.0", ...)
  iter : Option (Nat × Wid × Nat × List Hid) := none   -- dispatcher: entry (uid, watch, value), handlers still to visit
  cur : Option Op := none      -- the call in progress
  notified : Bool := false
  deriving DecidableEq, Repr, Inhabited

structure EmObj where
  wid : Wid
  script : List Nat            -- event values still to emit
  started : Bool := false
  stopped : Bool := false      -- its `_stopped_event`
  tidx : Option Nat := none    -- its thread, once started
  deriving DecidableEq, Repr, Inhabited

structure State where
  threads : List Thread
  lockOwner : Option Nat := none
  lockCount : Nat := 0
  handlers : List (Wid × List Hid) := []        -- `_handlers` (defaultdict of sets, sorted)
  regEm : List Eid := []                        -- `_emitters` / `_emitter_for_watch`, sorted by watch id
  watches : List Wid := []
  emObjs : List EmObj := []                     -- every emitter object ever created, by Eid
  queue : List QItem := []
  last : Option QItem := none
  nextUid : Nat := 1
  stoppedD : Bool := false                      -- the observer's `_stopped_event`
  dIdx : Option Nat := none                     -- dispatcher thread, once started
  invoc : List (Hid × Nat) := []                -- how often each handler has been called
  callbacks : List (Hid × List (List Op)) := [] -- k-th invocation of h runs these calls
  emitScripts : List (Wid × List Nat) := []     -- what a new emitter for watch w will emit
  nameCount : List (String × Nat) := []
  hist : List Obs := []
  deriving Repr, Inhabited

def init (clients : List (List Op)) (callbacks : List (Hid × List (List Op))) (emit : List (Wid × List Nat)) : State :=
  { threads := clients.zipIdx.map (fun (ops, i) =>
      { name := toString i, kind := .client, pc := .begin, ops := ops, label := toString i }),
    callbacks := callbacks, emitScripts := emit }

def State.thread? (s : State) (ti : Nat) : Option Thread := s.threads[ti]?
def State.setThread (s : State) (ti : Nat) (t : Thread) : State := { s with threads := s.threads.set ti t }
def State.updThread (s : State) (ti : Nat) (f : Thread → Thread) : State :=
  match s.thread? ti with
  | some t => s.setThread ti (f t)
  | none => s
def State.em? (s : State) (e : Eid) : Option EmObj := s.emObjs[e]?
def State.updEm (s : State) (e : Eid) (f : EmObj → EmObj) : State :=
  match s.em? e with
  | some o => { s with emObjs := s.emObjs.set e (f o) }
  | none => s
def State.handlersOf (s : State) (w : Wid) : List Hid := (alookup w s.handlers).getD []
def State.emitterOf (s : State) (w : Wid) : Option Eid :=
  s.regEm.find? (fun e => match s.em? e with | some o => o.wid == w | none => false)
def State.log (s : State) (o : Obs) : State := { s with hist := s.hist ++ [o] }

def insertSorted (x : Nat) : List Nat → List Nat
  | [] => [x]
  | y :: ys => if x < y then x :: y :: ys else if x = y then y :: ys else y :: insertSorted x ys

/-- thread `d` done? (`Thread.is_alive()` is false before start and after the end) -/
def State.threadDone (s : State) (ti : Nat) : Bool :=
  match s.thread? ti with
  | some t => t.pc == .done
  | none => false

def State.observerAlive (s : State) : Bool :=
  match s.dIdx with
  | some d => !s.threadDone d
  | none => false

/-- `Thread.start`: a new managed thread, named like detsched names it -/
def State.spawn (s : State) (base : String) (kind : Kind) : State × Nat :=
  let n := (alookup base s.nameCount).getD 0
  let name := if n = 0 then base else base ++ "#" ++ toString n
  let ti := s.threads.length
  ({ s with threads := s.threads ++ [{ name := name, kind := kind, pc := .begin }],
            nameCount := ainsert base (n + 1) s.nameCount }, ti)

def State.release (s : State) : State :=
  if s.lockCount ≤ 1 then { s with lockOwner := none, lockCount := 0 } else { s with lockCount := s.lockCount - 1 }

/-- `SkipRepeatsQueue.put` (atomic here) + `not_empty.notify()` -/
def State.putItem (s : State) (mk : Nat → QItem) (onEnq : Nat → Obs) (onDrop : Obs) : State :=
  let item := mk s.nextUid
  match s.last with
  | some l =>
    if item.valEq l then s.log onDrop
    else
      let s1 := ({ s with queue := s.queue ++ [item], last := some item, nextUid := s.nextUid + 1 } : State).log (onEnq s.nextUid)
      match s1.dIdx with
      | some d => s1.updThread d (fun t => if t.pc == .dWait then { t with notified := true } else t)
      | none => s1
  | none =>
    let s1 := ({ s with queue := s.queue ++ [item], last := some item, nextUid := s.nextUid + 1 } : State).log (onEnq s.nextUid)
    match s1.dIdx with
    | some d => s1.updThread d (fun t => if t.pc == .dWait then { t with notified := true } else t)
    | none => s1

/- what one thread does from a given point until its next visible operation.  `fuel` bounds the
   number of calls / loop iterations chained without a visible operation (scripts are finite). -/
mutual
def finishOp (fuel : Nat) (s : State) (ti : Nat) (res : String) : State :=
  match fuel with
  | 0 => s
  | fuel + 1 =>
    match s.thread? ti with
    | none => s
    | some t =>
      let s0 := match t.cur with | some op => s.log (.did op res) | none => s
      let s1 := (s0.log (.ret t.label t.idx res)).setThread ti { t with idx := t.idx + 1, cur := none }
      nextOp fuel s1 ti

def nextOp (fuel : Nat) (s : State) (ti : Nat) : State :=
  match fuel with
  | 0 => s
  | fuel + 1 =>
    match s.thread? ti with
    | none => s
    | some t =>
      match t.ops with
      | op :: rest => startOp fuel (s.setThread ti { t with ops := rest, cur := some op }) ti op
      | [] =>
        match t.kind with
        | .dispatcher => continueIter fuel s ti
        | _ => s.setThread ti { t with pc := .done }

/-- a thread enters an API call -/
def startOp (fuel : Nat) (s : State) (ti : Nat) (op : Op) : State :=
  match fuel with
  | 0 => s
  | fuel + 1 =>
    match op with
    | .start =>
      -- a second start(): `if self.ident is not None: raise RuntimeError` before anything is touched
      if s.dIdx.isSome then finishOp fuel s ti "raised:RuntimeError"
      -- `for emitter in self._emitters.copy(): emitter.start()` ... `super().start()`; no lock
      else startEmitters fuel s ti s.regEm
    | .join =>
      match s.dIdx with
      | none => finishOp fuel s ti "raised:RuntimeError"        -- cannot join thread before it is started
      | some d => if d = ti then finishOp fuel s ti "raised:RuntimeError"   -- cannot join current thread
                  else s.updThread ti (fun t => { t with pc := .joinD })
    | .stop =>
      let s1 := { s with stoppedD := true }
      enterLocked fuel s1 ti .stop
    | .raiseExc =>
      -- the exception unwinds every `with self._lock` of this thread and ends it (nothing catches it)
      match s.thread? ti with
      | some t =>
        let s1 := if s.lockOwner = some ti then { s with lockOwner := none, lockCount := 0 } else s
        (s1.log (.died t.name)).setThread ti { t with pc := .done, ops := [], iter := none }
      | none => s
    | op => enterLocked fuel s ti op

/-- `with self._lock:` — re-entrant for the owner, a visible operation otherwise -/
def enterLocked (fuel : Nat) (s : State) (ti : Nat) (op : Op) : State :=
  match fuel with
  | 0 => s
  | fuel + 1 =>
    if s.lockOwner = some ti then locked fuel { s with lockCount := s.lockCount + 1 } ti op
    else s.updThread ti (fun t => { t with pc := .acq op })

/-- the body of an API call with the lock held -/
def locked (fuel : Nat) (s : State) (ti : Nat) (op : Op) : State :=
  match fuel with
  | 0 => s
  | fuel + 1 =>
    match op with
    | .schedule h w fault =>
      match s.emitterOf w with
      | some _ =>
        let s1 := ({ s with handlers := ainsert w (insertSorted h (s.handlersOf w)) s.handlers,
                            watches := insertSorted w s.watches } : State).log (.reg h w)
        finishOp fuel s1.release ti "ok"
      | none =>
        if fault = 1 then finishOp fuel s.release ti "raised:ctor"
        else
          let e := s.emObjs.length
          let script := (alookup w s.emitScripts).getD []
          let s1 : State := { s with emObjs := s.emObjs ++ [({ wid := w, script := script } : EmObj)] }
          if s1.observerAlive && !s1.stoppedD then
            if fault = 2 then finishOp fuel s1.release ti "raised:start"
            else
              let (s2, ei) := s1.spawn ("E" ++ toString w) (.emitter e)
              let s3 := s2.updEm e (fun o => { o with started := true, tidx := some ei })
              s3.updThread ti (fun t => { t with pc := .schedStarted h w e })
          else schedFinish fuel s1 ti h w e
    | .unschedule w =>
      match s.emitterOf w with
      | none => finishOp fuel s.release ti "raised:KeyError"
      | some e =>
        if (alookup w s.handlers).isNone then finishOp fuel s.release ti "raised:KeyError"
        else
          let s1 := ({ s with handlers := aerase w s.handlers, regEm := s.regEm.filter (· != e) } : State).log (.unregW w)
          let s2 := s1.updEm e (fun o => { o with stopped := true })
          match (s2.em? e).bind (·.tidx) with
          | some _ => s2.updThread ti (fun t => { t with pc := .unschedJoin w e })
          | none => unschedFinish fuel s2 ti w          -- join() of an unstarted thread: RuntimeError, suppressed
    | .addHandler h w =>
      finishOp fuel (({ s with handlers := ainsert w (insertSorted h (s.handlersOf w)) s.handlers } : State).log (.reg h w)).release ti "ok"
    | .removeHandler h w =>
      if (s.handlersOf w).contains h then
        finishOp fuel (({ s with handlers := ainsert w ((s.handlersOf w).filter (· != h)) s.handlers } : State).log (.unreg h w)).release ti "ok"
      else finishOp fuel ({ s with handlers := ainsert w (s.handlersOf w) s.handlers } : State).release ti "raised:KeyError"
    | .unscheduleAll => uallBody fuel s ti false
    | .stop => uallBody fuel s ti true
    | _ => s

def schedFinish (fuel : Nat) (s : State) (ti : Nat) (h : Hid) (w : Wid) (e : Eid) : State :=
  match fuel with
  | 0 => s
  | fuel + 1 =>
    -- `_add_emitter`, `_add_handler_for_watch`, `_watches.add`
    let reg := (s.regEm ++ [e])
    let sorted := reg.mergeSort (fun a b =>
      ((s.em? a).map (·.wid)).getD 0 ≤ ((s.em? b).map (·.wid)).getD 0)
    let s1 := ({ s with regEm := sorted,
                        handlers := ainsert w (insertSorted h (s.handlersOf w)) s.handlers,
                        watches := insertSorted w s.watches } : State).log (.reg h w)
    finishOp fuel s1.release ti "ok"

def unschedFinish (fuel : Nat) (s : State) (ti : Nat) (w : Wid) : State :=
  match fuel with
  | 0 => s
  | fuel + 1 =>
    if s.watches.contains w then finishOp fuel ({ s with watches := s.watches.filter (· != w) } : State).release ti "ok"
    else finishOp fuel s.release ti "raised:KeyError"

/-- `unschedule_all()` (also the first half of `stop()`): clear handlers, stop every emitter, then join them -/
def uallBody (fuel : Nat) (s : State) (ti : Nat) (forStop : Bool) : State :=
  match fuel with
  | 0 => s
  | fuel + 1 =>
    let s1 := ({ s with handlers := [] } : State).log .unregAll
    let s2 := s1.regEm.foldl (fun acc e => acc.updEm e (fun o => { o with stopped := true })) s1
    uallJoinNext fuel s2 ti s2.regEm forStop

def uallJoinNext (fuel : Nat) (s : State) (ti : Nat) (es : List Eid) (forStop : Bool) : State :=
  match fuel with
  | 0 => s
  | fuel + 1 =>
    -- `for emitter in self._emitters: with suppress(RuntimeError): emitter.join()` — whether an emitter
    -- has been started is looked at when its turn comes (observer.start() runs without the lock)
    match es with
    | e :: rest =>
      if ((s.em? e).bind (·.tidx)).isSome then s.updThread ti (fun t => { t with pc := .uallJoin (e :: rest) forStop })
      else uallJoinNext fuel s ti rest forStop
    | [] =>
      let s1 := ({ s with regEm := [], watches := [] } : State).release
      if forStop then
        finishOp fuel (s1.putItem (fun _ => .stop) (fun _ => .enqStop) .dropStop) ti "ok"
      else finishOp fuel s1 ti "ok"

/-- `observer.start()`: start the emitters one by one, then the dispatcher thread -/
def startEmitters (fuel : Nat) (s : State) (ti : Nat) (es : List Eid) : State :=
  match fuel with
  | 0 => s
  | fuel + 1 =>
    match es with
    | e :: rest =>
      match s.em? e with
      | some o =>
        let (s1, ei) := s.spawn ("E" ++ toString o.wid) (.emitter e)
        let s2 := s1.updEm e (fun o => { o with started := true, tidx := some ei })
        s2.updThread ti (fun t => { t with pc := .startEm rest })
      | none => s
    | [] =>
      let (s1, d) := s.spawn "D" .dispatcher
      let s2 := { s1 with dIdx := some d }
      s2.updThread ti (fun t => { t with pc := .startD })

/-- the dispatcher's loop head: `while self.should_keep_running(): dispatch_events(...)` -/
def dLoop (fuel : Nat) (s : State) (ti : Nat) : State :=
  match fuel with
  | 0 => s
  | fuel + 1 =>
    if s.stoppedD then s.updThread ti (fun t => { t with pc := .done })
    else dGet fuel s ti

/-- `entry = event_queue.get(block=True)` and what follows it (also where a woken `get` resumes) -/
def dGet (fuel : Nat) (s : State) (ti : Nat) : State :=
  match fuel with
  | 0 => s
  | fuel + 1 =>
      match s.queue with
      | [] => s.updThread ti (fun t => { t with pc := .dWait, notified := false })
      | item :: rest =>
        let last' := match s.last with
          | some l => if item.same l then none else some l
          | none => none
        let s1 := { s with queue := rest, last := last' }
        match item with
        | .stop => dLoop fuel s1 ti
        | .ev u w v => s1.updThread ti (fun t => { t with pc := .dLock u w v })

/-- the dispatch loop over the copied handler set, re-checking membership before each call -/
def continueIter (fuel : Nat) (s : State) (ti : Nat) : State :=
  match fuel with
  | 0 => s
  | fuel + 1 =>
    match s.thread? ti with
    | none => s
    | some t =>
      match t.iter with
      | none => s
      | some (u, _w, _v, []) =>
        -- loop finished: leave `with self._lock`, task_done(), next entry
        let s1 := ((s.log (.dispatchEnd u)).setThread ti { t with iter := none }).release
        dLoop fuel s1 ti
      | some (u, w, v, h :: rest) =>
        -- `self._handlers[watch]` (defaultdict): creates the key if missing
        let s0 := if (alookup w s.handlers).isNone then { s with handlers := ainsert w [] s.handlers } else s
        if (s0.handlersOf w).contains h then
          let k := (alookup h s0.invoc).getD 0
          let script := (((alookup h s0.callbacks).getD []))[k]?.getD []
          let s1 := (({ s0 with invoc := ainsert h (k + 1) s0.invoc } : State).log (.call h w v u))
          let s2 := s1.setThread ti { t with iter := some (u, w, v, rest), ops := script, idx := 0,
                                             label := "cb" ++ toString h ++ "." ++ toString k }
          nextOp fuel s2 ti
        else continueIter fuel ((s0.log (.skip h u)).setThread ti { t with iter := some (u, w, v, rest) }) ti

/-- the emitter's loop head: `while self.should_keep_running(): self.queue_events(timeout)` -/
def eLoop (s : State) (ti : Nat) (e : Eid) : State :=
  match s.em? e with
  | none => s
  | some o =>
    if o.stopped then s.updThread ti (fun t => { t with pc := .done })
    else if o.script.isEmpty then s.updThread ti (fun t => { t with pc := .eWait })
    else s.updThread ti (fun t => { t with pc := .eEmit })
end

def FUEL : Nat := 10000

/-- can thread `ti` take a step now? -/
def enabled (s : State) (ti : Nat) : Bool :=
  match s.thread? ti with
  | none => false
  | some t =>
    match t.pc with
    | .done => false
    | .acq _ => s.lockOwner.isNone
    | .dLock _ _ _ => s.lockOwner.isNone
    | .unschedJoin _ e => match (s.em? e).bind (·.tidx) with | some ei => s.threadDone ei | none => true
    | .uallJoin (e :: _) _ => match (s.em? e).bind (·.tidx) with | some ei => s.threadDone ei | none => true
    | .joinD => match s.dIdx with | some d => s.threadDone d | none => true
    | .dWait => t.notified
    | .eWait => match t.kind with
      | .emitter e => match s.em? e with | some o => o.stopped | none => true
      | _ => true
    | _ => true

def step (s : State) (ti : Nat) : Option State :=
  if !enabled s ti then none else
  match s.thread? ti with
  | none => none
  | some t =>
    match t.pc with
    | .begin =>
      match t.kind with
      | .client => some (nextOp FUEL s ti)
      | .dispatcher => some (dLoop FUEL s ti)
      | .emitter e => some (eLoop s ti e)
    | .acq op => some (locked FUEL { s with lockOwner := some ti, lockCount := 1 } ti op)
    | .schedStarted h w e => some (schedFinish FUEL s ti h w e)
    | .unschedJoin w _ => some (unschedFinish FUEL s ti w)
    | .uallJoin (_ :: rest) forStop => some (uallJoinNext FUEL s ti rest forStop)
    | .uallJoin [] forStop => some (uallJoinNext FUEL s ti [] forStop)
    | .startEm es => some (startEmitters FUEL s ti es)
    | .startD => some (finishOp FUEL s ti "ok")
    | .joinD => some (finishOp FUEL s ti "ok")
    | .dWait => some (dGet FUEL (s.updThread ti (fun t => { t with notified := false })) ti)
    | .dLock u w v =>
      let s1 := { s with lockOwner := some ti, lockCount := 1 }
      -- `for handler in self._handlers[watch].copy()` (creates the key)
      let s2 := if (alookup w s1.handlers).isNone then { s1 with handlers := ainsert w [] s1.handlers } else s1
      let s3 := (s2.log (.dispatch u w (s2.handlersOf w))).updThread ti (fun t => { t with iter := some (u, w, v, s2.handlersOf w) })
      some (continueIter FUEL s3 ti)
    | .eEmit =>
      match t.kind with
      | .emitter e =>
        match s.em? e with
        | some o =>
          match o.script with
          | v :: rest =>
            let s1 := s.updEm e (fun o => { o with script := rest })
            let s2 := s1.putItem (fun u => .ev u o.wid v) (fun u => .enq o.wid v u) (.drop o.wid v)
            some (eLoop s2 ti e)
          | [] => some (eLoop s ti e)
        | none => none
      | _ => none
    | .eWait =>
      match t.kind with
      | .emitter e => some (eLoop s ti e)
      | _ => none
    | .done => none

def run (s : State) (sched : List Nat) : State := sched.foldl (fun s ti => (step s ti).getD s) s

def enabledList (s : State) : List Nat := (List.range s.threads.length).filter (enabled s)

end WD.Obs
