/-
  WD.Model.Pipeline — the native Linux pipeline in the regime "every operation drained before the
  next": a file-system model (two top directories, `W` watched and `O` outside), the inotify kernel
  behaviour the library relies on (watches keyed by inode, one record per event bit, cookies),
  `Inotify.read_events` (watch maps, re-keying on renames, watches for new directories, IGNORED
  clean-up), `InotifyBuffer._group_events`, and `InotifyEmitter.queue_events` with the synthetic
  sub-events.  The kernel part is an ASSUMPTION about Linux, validated on every run by comparing the
  delivered stream with the real observer on the real kernel.
-/
import WD.Model.Events
namespace WD.Pipe
open WD

abbrev P := List String            -- path components relative to the scratch base: ["W","d","a"]

structure Ent where
  path : P
  isDir : Bool
  ino : Nat
  deriving DecidableEq, Repr, Inhabited

structure FS where
  ents : List Ent                  -- includes the two top directories ["W"] and ["O"]; parents before children
  nextIno : Nat
  deriving Repr, Inhabited

inductive Op
  | create (p : P) | write (p : P) | chmod (p : P) | unlink (p : P)
  | mkdir (p : P) | rmdir (p : P) | rmtree (p : P) | rename (p q : P)
  | rmtreeOrd (p : P) (order : List P)   -- `shutil.rmtree` with the removal order of the descendants as the harness observed the directory listing
  deriving DecidableEq, Repr, Inhabited

def FS.init : FS := ⟨[⟨["W"], true, 1⟩, ⟨["O"], true, 2⟩], 3⟩

def FS.find? (fs : FS) (p : P) : Option Ent := fs.ents.find? (fun e => e.path == p)
def FS.isDir (fs : FS) (p : P) : Bool := match fs.find? p with | some e => e.isDir | none => false
def FS.children (fs : FS) (p : P) : List Ent :=
  fs.ents.filter (fun e => e.path.length = p.length + 1 && e.path.take p.length == p)
def isUnder (p q : P) : Bool := p.length < q.length && q.take p.length == p     -- q strictly below p
def FS.descendants (fs : FS) (p : P) : List Ent := fs.ents.filter (fun e => isUnder p e.path)
def parentOf (p : P) : P := p.dropLast
def baseName (p : P) : String := p.getLast?.getD ""

inductive Flag
  | modify | attrib | closeWrite | closeNoWrite | open | movedFrom | movedTo | create | delete | deleteSelf | ignored
  deriving DecidableEq, Repr, Inhabited

/-- a native record -/
structure NRec where
  wd : Nat
  flag : Flag
  isDir : Bool
  cookie : Nat
  name : Option String            -- `none`: the record is about the watched object itself
  deriving DecidableEq, Repr, Inhabited

/-- kernel: watches keyed by inode -/
structure Kern where
  watches : List (Nat × Nat)        -- (wd, inode)
  nextWd : Nat
  nextCookie : Nat
  deriving Repr, Inhabited

def Kern.wdOfIno (k : Kern) (ino : Nat) : Option Nat := (k.watches.find? (fun w => w.2 == ino)).map (·.1)

/-- records for an event about entry `name` inside the directory with inode `dirIno` (`none`: no such directory) -/
def Kern.onEntry (k : Kern) (dirIno : Option Nat) (flag : Flag) (isDir : Bool) (cookie : Nat) (name : String) : List NRec :=
  match dirIno with
  | none => []
  | some ino =>
    match k.wdOfIno ino with
    | some wd => [⟨wd, flag, isDir, cookie, some name⟩]
    | none => []

/-- records on the watch of the object itself -/
def Kern.onSelf (k : Kern) (ino : Nat) (flag : Flag) (isDir : Bool) : List NRec :=
  match k.wdOfIno ino with
  | some wd => [⟨wd, flag, isDir, 0, none⟩]
  | none => []

def Kern.dropWatch (k : Kern) (ino : Nat) : Kern := { k with watches := k.watches.filter (fun w => w.2 != ino) }

/-- removal of one entry (file: unlink; watched directory: DELETE_SELF, IGNORED on itself first) -/
def removeEntry (fs : FS) (k : Kern) (e : Ent) : FS × Kern × List NRec :=
  let parentIno := (fs.find? (parentOf e.path)).map (·.ino)
  let self := if e.isDir then k.onSelf e.ino .deleteSelf false ++ k.onSelf e.ino .ignored false else []
  let k1 := if e.isDir then k.dropWatch e.ino else k
  let recs := self ++ k.onEntry parentIno .delete e.isDir 0 (baseName e.path)
  ({ fs with ents := fs.ents.filter (fun x => x.path != e.path) }, k1, recs)

/-- a removal order for `rmtree` when the harness did not supply the observed one: deeper entries first -/
def canonOrder (fs : FS) (p : P) : List P :=
  ((fs.descendants p).map (·.path)).mergeSort (fun a b => decide (b.length ≤ a.length))

/-- remove the listed entries one after the other, then the directory itself -/
def removeAll (fs : FS) (k : Kern) (es : List Ent) : FS × Kern × List NRec :=
  es.foldl (fun (acc : FS × Kern × List NRec) x =>
      let (fs1, k1, r) := removeEntry acc.1 acc.2.1 x
      (fs1, k1, acc.2.2 ++ r)) (fs, k, [])

/-- one file-system operation: new file system, new kernel state, the native records it queues -/
def kernelOp (fs : FS) (k : Kern) (op : Op) : FS × Kern × List NRec :=
  let pino := fun (p : P) => (fs.find? (parentOf p)).map (·.ino)
  match op with
  | .create p =>
    let e : Ent := ⟨p, false, fs.nextIno⟩
    ({ ents := fs.ents ++ [e], nextIno := fs.nextIno + 1 }, k,
     k.onEntry (pino p) .create false 0 (baseName p) ++ k.onEntry (pino p) .open false 0 (baseName p) ++
     k.onEntry (pino p) .closeWrite false 0 (baseName p))
  | .write p =>
    (fs, k, k.onEntry (pino p) .open false 0 (baseName p) ++ k.onEntry (pino p) .modify false 0 (baseName p) ++
            k.onEntry (pino p) .closeWrite false 0 (baseName p))
  | .chmod p =>
    match fs.find? p with
    | some e =>
      -- the watched object itself reports first, then its parent
      (fs, k, (if e.isDir then k.onSelf e.ino .attrib true else []) ++ k.onEntry (pino p) .attrib e.isDir 0 (baseName p))
    | none => (fs, k, [])
  | .unlink p =>
    match fs.find? p with
    | some e => removeEntry fs k e
    | none => (fs, k, [])
  | .mkdir p =>
    let e : Ent := ⟨p, true, fs.nextIno⟩
    ({ ents := fs.ents ++ [e], nextIno := fs.nextIno + 1 }, k, k.onEntry (pino p) .create true 0 (baseName p))
  | .rmdir p =>
    match fs.find? p with
    | some e => removeEntry fs k e
    | none => (fs, k, [])
  | .rmtree p =>
    match fs.find? p with
    | some e => removeAll fs k ((canonOrder fs p).filterMap fs.find? ++ [e])
    | none => (fs, k, [])
  | .rmtreeOrd p order =>
    match fs.find? p with
    | some e => removeAll fs k (order.filterMap fs.find? ++ [e])
    | none => (fs, k, [])
  | .rename p q =>
    match fs.find? p with
    | some e =>
      let ck := k.nextCookie
      -- a replaced (empty, watched) directory reports on itself; a replaced file reports nothing
      let (fs0, k0, replaced) := match fs.find? q with
        | some old =>
          let self := if old.isDir then k.onSelf old.ino .attrib true ++ k.onSelf old.ino .deleteSelf false ++
                                        k.onSelf old.ino .ignored false else []
          (({ fs with ents := fs.ents.filter (fun x => x.path != q) } : FS),
           (if old.isDir then k.dropWatch old.ino else k), self)
        | none => (fs, k, [])
      let recs := k0.onEntry (pino p) .movedFrom e.isDir ck (baseName p) ++
                  k0.onEntry (pino q) .movedTo e.isDir ck (baseName q) ++ replaced
      let rewrite := fun (x : Ent) =>
        if x.path == p then { x with path := q }
        else if isUnder p x.path then { x with path := q ++ x.path.drop p.length } else x
      ({ fs0 with ents := fs0.ents.map rewrite }, { k0 with nextCookie := ck + 1 }, recs)
    | none => (fs, k, [])

/- ---------------------------- the library: Inotify.read_events ---------------------------- -/

/-- `InotifyEvent` -/
structure LEv where
  wd : Nat
  flag : Flag
  isDir : Bool
  cookie : Nat
  name : Option String
  src : P
  deriving DecidableEq, Repr, Inhabited

structure Lib where
  wdForPath : List (P × Nat)
  pathForWd : List (Nat × P)
  movedFrom : List (Nat × P)          -- cookie -> src_path of the remembered MOVED_FROM
  recursive : Bool
  deriving Repr, Inhabited

def lookupP (l : List (P × Nat)) (p : P) : Option Nat := (l.find? (fun x => x.1 == p)).map (·.2)
def lookupW (l : List (Nat × P)) (w : Nat) : Option P := (l.find? (fun x => x.1 == w)).map (·.2)
def setP (l : List (P × Nat)) (p : P) (w : Nat) : List (P × Nat) :=
  if (lookupP l p).isSome then l.map (fun x => if x.1 == p then (p, w) else x) else l ++ [(p, w)]
def setW (l : List (Nat × P)) (w : Nat) (p : P) : List (Nat × P) :=
  if (lookupW l w).isSome then l.map (fun x => if x.1 == w then (w, p) else x) else l ++ [(w, p)]

/-- `inotify_add_watch(path)`: resolves the path now; an already watched inode keeps its descriptor -/
def addWatch (fs : FS) (k : Kern) (lib : Lib) (p : P) : Option (Kern × Lib × Nat) :=
  match fs.find? p with
  | none => none                                     -- ENOENT
  | some e =>
    match k.wdOfIno e.ino with
    | some wd =>
      -- (repaired, D24) an inode that is handed its descriptor again under ANOTHER path has come back before its departure
      -- was dealt with: the stale key goes (and with it what the delayed clean-up would have found)
      some (k, { lib with wdForPath := setP (lib.wdForPath.filter (fun x => x.2 != wd || x.1 == p)) p wd,
                          pathForWd := setW lib.pathForWd wd p }, wd)
    | none =>
      let wd := k.nextWd
      some ({ k with watches := k.watches ++ [(wd, e.ino)], nextWd := wd + 1 },
            { lib with wdForPath := setP lib.wdForPath p wd, pathForWd := setW lib.pathForWd wd p }, wd)

/-- watches for a directory tree (`_add_dir_watch(path, recursive=True)`): the directory and every
    sub-directory below it; failures of single sub-directories are ignored here (the caller suppresses OSError) -/
def addTreeWatches (fs : FS) (k : Kern) (lib : Lib) (p : P) : Kern × Lib :=
  ((fs.find? p).toList ++ (fs.descendants p).filter (·.isDir)).foldl
    (fun (acc : Kern × Lib) e => match addWatch fs acc.1 acc.2 e.path with
      | some (k1, l1, _) => (k1, l1)
      | none => acc) (k, lib)

/-- the observer starts: `Inotify.__init__` -/
def libInit (fs : FS) (recursive : Bool) : Kern × Lib :=
  let k0 : Kern := ⟨[], 1, 1⟩
  let l0 : Lib := ⟨[], [], [], recursive⟩
  if recursive then addTreeWatches fs k0 l0 ["W"]
  else match addWatch fs k0 l0 ["W"] with
    | some (k, l, _) => (k, l)
    | none => (k0, l0)

/-- one record through the parse loop of `read_events` (`fs` = the file system as it is when the
    library looks).  `none` = the record's wd is unknown (`KeyError`: the reader thread dies). -/
def libRecord (fs : FS) (k : Kern) (lib : Lib) (r : NRec) : Option (Kern × Lib × List LEv) :=
  match lookupW lib.pathForWd r.wd with
  | none => none
  | some wdPath =>
    let src := match r.name with | none => wdPath | some n => wdPath ++ [n]
    let ev : LEv := ⟨r.wd, r.flag, r.isDir, r.cookie, r.name, src⟩
    match r.flag with
    | .movedFrom => some (k, { lib with movedFrom := (r.cookie, src) :: lib.movedFrom }, [ev])
    | .movedTo =>
      let moveSrc := (lib.movedFrom.find? (fun x => x.1 == r.cookie)).map (·.2)
      let rekeyed : Option Lib := match moveSrc with
        | some ms =>
          match lookupP lib.wdForPath ms with
          | some movedWd =>
            -- re-key the moved directory and (recursive) everything below it
            let wfp := (lib.wdForPath.filter (fun x => x.1 != ms))
            let wfp := setP wfp src movedWd
            let pfw := setW lib.pathForWd movedWd src
            if lib.recursive then
              let sub := wfp.filter (fun x => isUnder ms x.1)
              let wfp2 := sub.foldl (fun acc x => setP (acc.filter (fun y => y.1 != x.1)) (src ++ x.1.drop ms.length) x.2) wfp
              let pfw2 := sub.foldl (fun acc x => setW acc x.2 (src ++ x.1.drop ms.length)) pfw
              some { lib with wdForPath := wfp2, pathForWd := pfw2 }
            else some { lib with wdForPath := wfp, pathForWd := pfw }
          | none => none
        | none => none
      -- (repaired) a directory that arrives without a watch to re-key gets its watches now
      -- (repaired, D23) after re-keying, `_add_dir_watch` runs over the destination as well: a sub-directory that was made
      -- just before the rename got no watch when its IN_CREATE was read (its path was gone by then)
      let (k2, lib2) := match rekeyed with
        | some l => if lib.recursive && r.isDir then addTreeWatches fs k l src else (k, l)
        | none => if lib.recursive && r.isDir then addTreeWatches fs k lib src else (k, lib)
      some (k2, lib2, [ev])
    | .ignored =>
      let pfw := lib.pathForWd.filter (fun x => x.1 != r.wd)
      let wfp := if lookupP lib.wdForPath wdPath == some r.wd then lib.wdForPath.filter (fun x => x.1 != wdPath)
                 else lib.wdForPath
      some (k, { lib with wdForPath := wfp, pathForWd := pfw }, [ev])
    | .create =>
      if lib.recursive && r.isDir then
        match addWatch fs k lib src with
        | none => some (k, lib, [ev])                -- vanished already: `continue`
        | some (k1, l1, _) =>
          -- `_recursive_simulate`: what already lies inside gets watches and simulated CREATE events
          let inside := fs.descendants src
          let (k2, l2, sim) := inside.foldl (fun (acc : Kern × Lib × List LEv) e =>
              if e.isDir then
                match addWatch fs acc.1 acc.2.1 e.path with
                | some (ka, la, wd) => (ka, la, acc.2.2 ++ [⟨wd, .create, true, 0, some (baseName e.path), e.path⟩])
                | none => acc
              else
                match lookupP acc.2.1.wdForPath (parentOf e.path) with
                | some wd => (acc.1, acc.2.1, acc.2.2 ++ [⟨wd, .create, false, 0, some (baseName e.path), e.path⟩])
                | none => acc) (k1, l1, [])
          some (k2, l2, ev :: sim)
      else some (k, lib, [ev])
    | _ => some (k, lib, [ev])

def libBatch (fs : FS) (k : Kern) (lib : Lib) : List NRec → Option (Kern × Lib × List LEv)
  | [] => some (k, lib, [])
  | r :: rest =>
    match libRecord fs k lib r with
    | none => none
    | some (k1, l1, evs) =>
      match libBatch fs k1 l1 rest with
      | none => none
      | some (k2, l2, more) => some (k2, l2, evs ++ more)

/- ---------------------------- buffer grouping + emitter ---------------------------- -/

inductive Grouped
  | one (e : LEv)
  | two (f t : LEv)
  deriving Repr, Inhabited

def pairIn (t : LEv) : List Grouped → Option (List Grouped)
  | [] => none
  | .one r :: rest =>
    if r.flag == .movedFrom && r.cookie == t.cookie then some (.two r t :: rest)
    else (pairIn t rest).map (fun l => .one r :: l)
  | g :: rest => (pairIn t rest).map (fun l => g :: l)

/-- `_group_events` over one batch (drained regime: nothing is waiting in the delay queue) -/
def group (evs : List LEv) : List Grouped :=
  evs.foldl (fun acc e =>
    if e.flag == .movedTo then
      match pairIn e acc with
      | some g => g
      | none => acc ++ [.one e]
    else acc ++ [.one e]) []

def showP (p : P) : String := "/".intercalate p

/-- a delivered event with structured paths (`[]` = absent) -/
structure PEv where
  cls : EvClass
  src : P
  dest : P := []
  syn : Bool := false
  deriving DecidableEq, Repr, Inhabited

def PEv.toEvent (e : PEv) : Event := ⟨e.cls, showP e.src, showP e.dest, e.syn⟩

def mkEv (c : EvClass) (src : P) (dest : P := []) (syn : Bool := false) : PEv := ⟨c, src, dest, syn⟩

/-- synthetic events for what lies below a directory (order: as listed; the harness compares them as a set) -/
def subMoved (fs : FS) (srcDir dstDir : P) : List PEv :=
  (fs.descendants dstDir).map (fun e =>
    mkEv (if e.isDir then .DirMovedEvent else .FileMovedEvent) (srcDir ++ e.path.drop dstDir.length) e.path true)
def subCreated (fs : FS) (dir : P) : List PEv :=
  (fs.descendants dir).map (fun e => mkEv (if e.isDir then .DirCreatedEvent else .FileCreatedEvent) e.path [] true)

/-- `InotifyEmitter.queue_events` for one grouped item; returns the events and whether the emitter stops -/
def emit (fs : FS) (recursive full : Bool) (g : Grouped) : List PEv × Bool :=
  match g with
  | .two f t =>
    let cls := if f.isDir then EvClass.DirMovedEvent else .FileMovedEvent
    ([mkEv cls f.src t.src, mkEv .DirModifiedEvent (parentOf f.src), mkEv .DirModifiedEvent (parentOf t.src)] ++
      (if f.isDir && recursive then subMoved fs f.src t.src else []), false)
  | .one e =>
    let dirmod := mkEv .DirModifiedEvent (parentOf e.src)
    match e.flag with
    | .movedTo =>
      ((if full then [mkEv (if e.isDir then .DirMovedEvent else .FileMovedEvent) [] e.src]
        else [mkEv (if e.isDir then .DirCreatedEvent else .FileCreatedEvent) e.src]) ++ [dirmod] ++
       (if e.isDir && recursive then subCreated fs e.src else []), false)
    | .attrib => ([mkEv (if e.isDir then .DirModifiedEvent else .FileModifiedEvent) e.src], false)
    | .modify => ([mkEv (if e.isDir then .DirModifiedEvent else .FileModifiedEvent) e.src], false)
    | .delete => ([mkEv (if e.isDir then .DirDeletedEvent else .FileDeletedEvent) e.src, dirmod], false)
    | .movedFrom =>
      if full then ([mkEv (if e.isDir then .DirMovedEvent else .FileMovedEvent) e.src [], dirmod], false)
      else ([mkEv (if e.isDir then .DirDeletedEvent else .FileDeletedEvent) e.src, dirmod], false)
    | .create => ([mkEv (if e.isDir then .DirCreatedEvent else .FileCreatedEvent) e.src, dirmod], false)
    | .deleteSelf => if e.src == ["W"] then ([mkEv .DirDeletedEvent e.src], true) else ([], false)
    | .open => if e.isDir then ([], false) else ([mkEv .FileOpenedEvent e.src], false)
    | .closeWrite => if e.isDir then ([], false) else ([mkEv .FileClosedEvent e.src, dirmod], false)
    | .closeNoWrite => if e.isDir then ([], false) else ([mkEv .FileClosedNoWriteEvent e.src], false)
    | .ignored => ([], false)

/- ---------------------------- the whole pipeline, one drained operation at a time ---------------------------- -/

structure Sys where
  fs : FS
  k : Kern
  lib : Lib
  full : Bool
  stopped : Bool := false       -- the emitter stopped (root deleted)
  crashed : Bool := false       -- the reader thread died on an unknown wd
  deriving Repr, Inhabited

def Sys.start (fs : FS) (recursive full : Bool) : Sys :=
  let (k, lib) := libInit fs recursive
  { fs := fs, k := k, lib := lib, full := full }

/-- `Inotify.remove_tree_watches(path)`: every watch the library knows at or below `p` is removed from the
    kernel (`inotify_rm_watch`), which answers each with an IGNORED record (a descriptor the kernel no longer
    has is refused: nothing happens) -/
def unwatchTree (k : Kern) (lib : Lib) (p : P) : Kern × List NRec :=
  (lib.wdForPath.filter (fun x => x.1 == p || isUnder p x.1)).foldl
    (fun (acc : Kern × List NRec) x =>
      if acc.1.watches.any (fun w => w.1 == x.2) then
        ({ acc.1 with watches := acc.1.watches.filter (fun w => w.1 != x.2) }, acc.2 ++ [⟨x.2, .ignored, false, 0, none⟩])
      else acc) (k, [])

/-- directories whose MOVED_FROM stayed unmatched: they have left the watched tree -/
def movedOut (gs : List Grouped) : List P :=
  gs.filterMap (fun g => match g with
    | .one e => if e.flag == .movedFrom && e.isDir then some e.src else none
    | _ => none)

/-- the emitter forgets the trees that left (recursive watches only); the IGNORED answers go through the
    reader like any other record -/
def forgetAll (fs : FS) (k : Kern) (lib : Lib) : List P → Option (Kern × Lib)
  | [] => some (k, lib)
  | p :: rest =>
    let (k1, recs) := unwatchTree k lib p
    match libBatch fs k1 lib recs with
    | none => none
    | some (k2, lib2, _) => forgetAll fs k2 lib2 rest

/-- one grouped item through the emitter (nothing more once it has stopped) -/
def emitStep (fs : FS) (recursive full : Bool) (acc : List PEv × Bool) (g : Grouped) : List PEv × Bool :=
  if acc.2 then acc else ((acc.1 ++ (emit fs recursive full g).1), (emit fs recursive full g).2)

/-- events of the grouped items, up to and including the one that stops the emitter -/
def emitAll (fs : FS) (recursive full : Bool) (gs : List Grouped) : List PEv × Bool :=
  gs.foldl (emitStep fs recursive full) ([], false)

/-- the reader drops the kernel's watch-removed markers before queueing -/
def Grouped.keep : Grouped → Bool
  | .one e => e.flag != .ignored
  | _ => true

/-- what reaches the emitter of one batch -/
def gsOf (levs : List LEv) : List Grouped := (group levs).filter Grouped.keep

/-- apply one operation and let the observer drain: the events delivered for it -/
def Sys.op (s : Sys) (op : Op) : Sys × List PEv :=
  let (fs1, k1, recs) := kernelOp s.fs s.k op
  if s.stopped || s.crashed then ({ s with fs := fs1, k := k1 }, [])
  else
    match libBatch fs1 k1 s.lib recs with
    | none => ({ s with fs := fs1, k := k1, crashed := true }, [])
    | some (k2, lib2, levs) =>
      let gs := gsOf levs
      let (evs, stop) := emitAll fs1 lib2.recursive s.full gs
      match forgetAll fs1 k2 lib2 (if lib2.recursive then movedOut gs else []) with
      | none => ({ s with fs := fs1, k := k2, lib := lib2, crashed := true }, evs)
      | some (k3, lib3) => ({ s with fs := fs1, k := k3, lib := lib3, stopped := stop }, evs)

def Sys.run (s : Sys) : List Op → Sys × List (List PEv)
  | [] => (s, [])
  | op :: rest =>
    let (s1, evs) := s.op op
    let (s2, more) := s1.run rest
    (s2, evs :: more)

/- ---------------------------- validity of operations (the syscalls' own guards) ---------------------------- -/

def FS.exists (fs : FS) (p : P) : Bool := (fs.find? p).isSome
def FS.isFile (fs : FS) (p : P) : Bool := match fs.find? p with | some e => !e.isDir | none => false

/-- `rmtree p` removing the descendants in the given order: the order lists every descendant once and
    a directory comes after everything below it -/
def validRmtree (fs : FS) (p : P) (order : List P) : Bool :=
    2 ≤ p.length && fs.isDir p && order.all (fun q => isUnder p q && fs.exists q) &&
    (fs.descendants p).all (fun e => order.contains e.path) && decide (order.Nodup) &&
    decide (order.Pairwise (fun a b => isUnder a b = false))      -- nothing is removed after something above it

/-- would the real syscall succeed on this file system? (entries are addressed below `W` or `O`) -/
def validOp (fs : FS) : Op → Bool
  | .create p => 2 ≤ p.length && !fs.exists p && fs.isDir (parentOf p)
  | .mkdir p => 2 ≤ p.length && !fs.exists p && fs.isDir (parentOf p)
  | .write p => fs.isFile p
  | .chmod p => 2 ≤ p.length && fs.exists p
  | .unlink p => fs.isFile p
  | .rmdir p => (2 ≤ p.length || p == ["W"]) && fs.isDir p && (fs.children p).isEmpty   -- the watched root itself may be removed
  | .rmtree p => validRmtree fs p (canonOrder fs p)
  | .rmtreeOrd p order => validRmtree fs p order
  | .rename p q =>
    2 ≤ p.length && 2 ≤ q.length && fs.exists p && fs.isDir (parentOf q) && p != q && !isUnder p q &&
    (match fs.find? q with
     | some old => old.isDir == fs.isDir p && (!old.isDir || (fs.children q).isEmpty)
     | none => true)

/-- paths an operation names -/
def Op.paths : Op → List P
  | .create p | .write p | .chmod p | .unlink p | .mkdir p | .rmdir p | .rmtree p | .rmtreeOrd p _ => [p]
  | .rename p q => [p, q]

/-- the operation is "on entries of the watched tree": every path it names lies below `W`, except that a
    rename may have its other end below `O` (a move out of, or into, the tree) -/
def inScope : Op → Bool
  | .rename p q => (isUnder ["W"] p || isUnder ["W"] q)
  | op => op.paths.all (isUnder ["W"])

/-- the operation does not reach into a directory that has left the watched tree but is still watched by
    the kernel (a moved-out directory keeps its watches: known finding D2): the parent directory of every
    path it names outside `W` is unwatched -/
def quietOp (s_fs : FS) (k : Kern) (op : Op) : Bool :=
  op.paths.all (fun q => isUnder ["W"] q ||
    (match s_fs.find? (parentOf q) with
     | some par => (k.wdOfIno par.ino).isNone
     | none => true))

/-- well-formed file system: unique paths, unique inodes below `nextIno`, the two top directories exist,
    every entry's parent is a directory -/
def FS.WF (fs : FS) : Prop :=
  (fs.ents.map Ent.path).Nodup ∧ (fs.ents.map Ent.ino).Nodup ∧ (∀ e ∈ fs.ents, 0 < e.ino ∧ e.ino < fs.nextIno) ∧
  fs.isDir ["W"] = true ∧ fs.isDir ["O"] = true ∧
  ∀ e ∈ fs.ents, e.path = ["W"] ∨ e.path = ["O"] ∨ (2 ≤ e.path.length ∧ fs.isDir (parentOf e.path) = true)

/- ---------------------------- C01's replay ---------------------------- -/

abbrev Tree := List (P × Bool)          -- (path, is a directory)

def treeW (fs : FS) : Tree := (fs.ents.filter (fun e => isUnder ["W"] e.path)).map (fun e => (e.path, e.isDir))
/-- what a non-recursive watch is accountable for: the root's direct children -/
def treeW1 (fs : FS) : Tree := (treeW fs).filter (fun x => x.1.length = 2)

def eraseSub (t : Tree) (p : P) : Tree := t.filter (fun x => !(x.1 == p || isUnder p x.1))

def setEntry (t : Tree) (p : P) (isDir : Bool) : Tree := t.filter (fun x => x.1 != p) ++ [(p, isDir)]

/-- apply one delivered event to a copy of the tree (flat replay: a created / moved event places exactly
    one entry; the synthetic events place the descendants; a deleted event and the source of a moved event
    take the whole subtree away) -/
def applyEv (t : Tree) (e : PEv) : Tree :=
  match e.cls.eventType with
  | "created" => setEntry t e.src e.cls.isDirectory
  | "deleted" => eraseSub t e.src
  | "moved" =>
    let t1 := if e.src = [] then t else eraseSub t e.src
    if e.dest = [] then t1 else setEntry t1 e.dest e.cls.isDirectory
  | _ => t

def replay (t : Tree) (evs : List PEv) : Tree := evs.foldl applyEv t

def sameTree (a b : Tree) : Prop := ∀ x, x ∈ a ↔ x ∈ b

/-- C02's coverage: every directory that exists at or below `W` has a kernel watch on its inode that the
    library maps to the directory's real current path -/
def Covered (s : Sys) : Prop :=
  ∀ e ∈ s.fs.ents, e.isDir = true → (e.path = ["W"] ∨ isUnder ["W"] e.path = true) →
    ∃ wd, s.k.wdOfIno e.ino = some wd ∧ lookupW s.lib.pathForWd wd = some e.path

end WD.Pipe
