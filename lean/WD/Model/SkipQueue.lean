/-
  WD.Model.SkipQueue — `watchdog.utils.bricks.SkipRepeatsQueue` (the observer's EventQueue) as a
  transition system: producers read `_last_item` *without* the queue's mutex (two separate attribute
  loads: `self._last_item is None or item != self._last_item`), then `queue.Queue.put` appends and
  sets `_last_item` inside the mutex; consumers pop inside the mutex and clear `_last_item` when the
  popped object *is* it.  Step granularity = harness/detsched.py's visible operations.
-/
namespace WD.SQ

/-- an item: `uid` = Python identity, `val` = what `==`/`!=` compare (class and field values) -/
structure Item where
  uid : Nat
  val : Nat
  deriving DecidableEq, Repr, Inhabited

inductive Op
  | put (x : Item)
  | get
  deriving DecidableEq, Repr, Inhabited

inductive Pc
  | begin
  | putRead1 (x : Item)     -- before the first unlocked load of `_last_item`
  | putRead2 (x : Item)     -- before the second load (`item != self._last_item`)
  | putAcq (x : Item)       -- at `with self.not_full:` (the mutex)
  | getAcq                  -- at `with self.not_empty:`
  | getWait                 -- inside `not_empty.wait()`
  | done
  deriving DecidableEq, Repr, Inhabited

inductive Obs
  | enq (tid : Nat) (x : Item)                 -- appended to the queue
  | dropped (tid : Nat) (x : Item) (y : Item)  -- `put(x)` returned without enqueuing; `y` = what it compared equal to
  | got (tid : Nat) (x : Item)
  deriving DecidableEq, Repr, Inhabited

structure Thread where
  pc : Pc
  script : List Op
  notified : Bool := false
  deriving DecidableEq, Repr, Inhabited

structure State where
  queue : List Item
  last : Option Item
  waiters : List Nat
  threads : List Thread
  hist : List Obs
  deriving Repr, Inhabited

def init (scripts : List (List Op)) : State :=
  { queue := [], last := none, waiters := [],
    threads := scripts.map (fun s => { pc := .begin, script := s }), hist := [] }

def State.thread? (s : State) (tid : Nat) : Option Thread := s.threads[tid]?
def State.setThread (s : State) (tid : Nat) (t : Thread) : State := { s with threads := s.threads.set tid t }

def notifyOne (s : State) : State :=
  match s.waiters with
  | [] => s
  | w :: rest =>
    match s.thread? w with
    | some t => { (s.setThread w { t with notified := true }) with waiters := rest }
    | none => { s with waiters := rest }

def arrive (s : State) (tid : Nat) (t : Thread) : State :=
  match t.script with
  | [] => s.setThread tid { t with pc := .done, script := [] }
  | .put x :: rest => s.setThread tid { t with pc := .putRead1 x, script := rest, notified := false }
  | .get :: rest => s.setThread tid { t with pc := .getAcq, script := rest, notified := false }

/-- `get` with the mutex held -/
def getLocked (s : State) (tid : Nat) (t : Thread) : State :=
  match s.queue with
  | [] => { (s.setThread tid { t with pc := .getWait, notified := false }) with waiters := s.waiters ++ [tid] }
  | x :: rest =>
    let last' := match s.last with
      | some y => if y.uid = x.uid then none else some y     -- `if item is self._last_item`
      | none => none
    arrive { s with queue := rest, last := last', hist := s.hist ++ [.got tid x] } tid t

def enabled (s : State) (tid : Nat) : Bool :=
  match s.thread? tid with
  | none => false
  | some t =>
    match t.pc with
    | .done => false
    | .getWait => t.notified
    | _ => true

def step (s : State) (tid : Nat) : Option State :=
  if !enabled s tid then none else
  match s.thread? tid with
  | none => none
  | some t =>
    match t.pc with
    | .begin => some (arrive s tid t)
    | .putRead1 x =>
      match s.last with
      | none => some (s.setThread tid { t with pc := .putAcq x })
      | some _ => some (s.setThread tid { t with pc := .putRead2 x })
    | .putRead2 x =>
      match s.last with
      | none => some (s.setThread tid { t with pc := .putAcq x })          -- `item != None`
      | some y =>
        if x.val = y.val then some (arrive { s with hist := s.hist ++ [.dropped tid x y] } tid t)
        else some (s.setThread tid { t with pc := .putAcq x })
    | .putAcq x =>
      let s1 := { s with queue := s.queue ++ [x], last := some x, hist := s.hist ++ [.enq tid x] }
      some (arrive (notifyOne s1) tid t)
    | .getAcq => some (getLocked s tid t)
    | .getWait => some (getLocked s tid { t with notified := false })
    | .done => none

def run (s : State) (sched : List Nat) : State := sched.foldl (fun s tid => (step s tid).getD s) s

def enabledList (s : State) : List Nat := (List.range s.threads.length).filter (enabled s)

/-- the obvious sequential reference queue the property describes -/
def refPut (q : List Item) (x : Item) : List Item :=
  match q.getLast? with
  | some y => if y.val = x.val then q else q ++ [x]
  | none => q ++ [x]

end WD.SQ
