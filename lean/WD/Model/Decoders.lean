/-
  WD.Model.Decoders — the two binary buffer decoders:
  `watchdog.observers.inotify_c.Inotify._parse_event_buffer` (struct inotify_event) and
  `watchdog.observers.winapi._parse_event_buffer` (FILE_NOTIFY_INFORMATION), at byte level.
  Bytes are natural numbers < 256; integers are little-endian.
-/
namespace WD.Dec

abbrev Bytes := List Nat

/-- little-endian 32-bit -/
def le32 (n : Nat) : Bytes := [n % 256, n / 256 % 256, n / 65536 % 256, n / 16777216 % 256]

def rd32 (b : Bytes) (i : Nat) : Nat :=
  b.getD i 0 + 256 * b.getD (i + 1) 0 + 65536 * b.getD (i + 2) 0 + 16777216 * b.getD (i + 3) 0

/-- `bytes.rstrip(b"\0")` -/
def rstrip0 (b : Bytes) : Bytes := (b.reverse.dropWhile (· == 0)).reverse

/- ---------------- inotify ---------------- -/

structure InoRec where
  wd : Nat          -- as an unsigned 32-bit value (the harness maps negative wds to their two's complement)
  mask : Nat
  cookie : Nat
  name : Bytes
  deriving DecidableEq, Repr, Inhabited

/-- `while i + 16 <= len(buf): wd, mask, cookie, length = unpack_from("iIII", buf, i);
    name = buf[i+16 : i+16+length].rstrip(b"\0"); i += 16 + length` -/
def parseIno (fuel : Nat) (buf : Bytes) (i : Nat) : List InoRec :=
  match fuel with
  | 0 => []
  | fuel + 1 =>
    if i + 16 ≤ buf.length then
      let len := rd32 buf (i + 12)
      let name := rstrip0 ((buf.drop (i + 16)).take len)
      ⟨rd32 buf i, rd32 buf (i + 4), rd32 buf (i + 8), name⟩ :: parseIno fuel buf (i + 16 + len)
    else []

def decodeIno (buf : Bytes) : List InoRec := parseIno (buf.length + 1) buf 0

/-- what the kernel writes: the name followed by `pad` NUL bytes -/
def encodeInoRec (r : InoRec) (pad : Nat) : Bytes :=
  le32 r.wd ++ le32 r.mask ++ le32 r.cookie ++ le32 (r.name.length + pad) ++ r.name ++ List.replicate pad 0

def encodeIno : List (InoRec × Nat) → Bytes
  | [] => []
  | (r, pad) :: rest => encodeInoRec r pad ++ encodeIno rest

/- ---------------- Windows ---------------- -/

structure WinRec where
  action : Nat
  name : List Nat       -- UTF-16 code units
  deriving DecidableEq, Repr, Inhabited

def units16 (b : Bytes) : List Nat :=
  match b with
  | lo :: hi :: rest => (lo + 256 * hi) :: units16 rest
  | _ => []

def bytes16 : List Nat → Bytes
  | [] => []
  | u :: rest => (u % 256) :: (u / 256 % 256) :: bytes16 rest

/-- `while n_bytes > 0: fni = cast(buf)[0]; name = string_at(addr + 12, fni.FileNameLength);
    results.append((fni.Action, name.decode("utf-16-le"))); if fni.NextEntryOffset <= 0: break;
    buf = buf[NextEntryOffset:]; n_bytes -= NextEntryOffset` -/
def parseWin (fuel : Nat) (buf : Bytes) (nBytes : Nat) : List WinRec :=
  match fuel with
  | 0 => []
  | fuel + 1 =>
    if nBytes = 0 then [] else
    let next := rd32 buf 0
    let action := rd32 buf 4
    let nameLen := rd32 buf 8
    let r : WinRec := ⟨action, units16 ((buf.drop 12).take nameLen)⟩
    if next = 0 then [r] else r :: parseWin fuel (buf.drop next) (nBytes - next)

def decodeWin (buf : Bytes) (nBytes : Nat) : List WinRec := parseWin (nBytes + 1) buf nBytes

/-- one FILE_NOTIFY_INFORMATION with `pad` bytes of alignment padding after the name; the last
    record has NextEntryOffset = 0 -/
def encodeWin : List (WinRec × Nat) → Bytes
  | [] => []
  | [(r, pad)] => le32 0 ++ le32 r.action ++ le32 (2 * r.name.length) ++ bytes16 r.name ++ List.replicate pad 0
  | (r, pad) :: rest =>
    le32 (12 + 2 * r.name.length + pad) ++ le32 r.action ++ le32 (2 * r.name.length) ++ bytes16 r.name ++
      List.replicate pad 0 ++ encodeWin rest

end WD.Dec
