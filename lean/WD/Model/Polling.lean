/-
  WD.Model.Polling — `DirectorySnapshot.__init__/walk` over a virtual file system whose
  `stat`/`listdir` answers may be errors, and `PollingEmitter.on_thread_start/queue_events`.
-/
import WD.Model.Snapshot
import WD.Model.Events
namespace WD.Poll
open WD

inductive Err
  | enoent | enotdir | einval | eacces | eother
  deriving DecidableEq, Repr, Inhabited

/-- one entry of the virtual file system as the walk will see it: what `stat(path)` answers, and
    what `listdir(path)` answers (only consulted if the stat says "directory") -/
inductive VNode
  | mk (name : String) (stat : Except Err Stat) (list : Except Err (List VNode))

def VNode.name : VNode → String | .mk n _ _ => n
def VNode.stat : VNode → Except Err Stat | .mk _ s _ => s
def VNode.list : VNode → Except Err (List VNode) | .mk _ _ l => l

def join (root name : String) : String :=
  if root.endsWith "/" then root ++ name else root ++ "/" ++ name

/-- `listdir` errors after which `walk` treats the directory as empty -/
def tolerated (e : Err) : Bool := e == .enoent || e == .enotdir || e == .einval

mutual
/-- `DirectorySnapshot.walk(root)`: the entries yielded (in order) and the exception that escaped,
    if any.  `list` is the answer of `listdir(root)`. -/
def walk (recursive : Bool) (root : String) (list : Except Err (List VNode)) :
    List (Path × Stat) × Option Err :=
  match list with
  | .error e => if tolerated e then ([], none) else ([], some e)
  | .ok nodes =>
    let own := ownEntries root nodes
    if recursive then
      let (sub, err) := walkSubs root nodes
      (own ++ sub, err)
    else (own, none)
/-- `for p in paths: with suppress(OSError): yield (p, stat(p))` -/
def ownEntries (root : String) : List VNode → List (Path × Stat)
  | [] => []
  | .mk n (.ok st) _ :: rest => (join root n, st) :: ownEntries root rest
  | .mk _ (.error _) _ :: rest => ownEntries root rest
/-- `for path, st in entries: with suppress(PermissionError): if S_ISDIR: yield from walk(path)` -/
def walkSubs (root : String) : List VNode → List (Path × Stat) × Option Err
  | [] => ([], none)
  | .mk n (.ok st) l :: rest =>
    if st.isdir then
      match walk true (join root n) l with
      | (sub, none) => let (more, err) := walkSubs root rest; (sub ++ more, err)
      | (sub, some e) =>
        if e == .eacces then let (more, err) := walkSubs root rest; (sub ++ more, err)   -- suppressed
        else (sub, some e)                                                                -- escapes
    else walkSubs root rest
  | .mk _ (.error _) _ :: rest => walkSubs root rest
end

/-- `DirectorySnapshot(path, recursive, stat, listdir)`; `.error` = the constructor raised -/
def takeSnapshot (recursive : Bool) (root : VNode) : Except Err Snap :=
  match root with
  | .mk path (.error e) _ => .error e
  | .mk path (.ok st) l =>
    match walk recursive path l with
    | (entries, none) => .ok (Snap.build ((path, st) :: entries))
    | (_, some e) => .error e

/-- the eight loops of `PollingEmitter.queue_events`, in their order -/
def diffEvents (d : DiffLists) : List (List Event) :=
  [ d.filesDeleted.map (fun p => ⟨.FileDeletedEvent, p, "", false⟩),
    d.filesModified.map (fun p => ⟨.FileModifiedEvent, p, "", false⟩),
    d.filesCreated.map (fun p => ⟨.FileCreatedEvent, p, "", false⟩),
    d.filesMoved.map (fun x => ⟨.FileMovedEvent, x.1, x.2, false⟩),
    d.dirsDeleted.map (fun p => ⟨.DirDeletedEvent, p, "", false⟩),
    d.dirsModified.map (fun p => ⟨.DirModifiedEvent, p, "", false⟩),
    d.dirsCreated.map (fun p => ⟨.DirCreatedEvent, p, "", false⟩),
    d.dirsMoved.map (fun x => ⟨.DirMovedEvent, x.1, x.2, false⟩) ]

structure Emitter where
  recursive : Bool
  rootPath : String
  snapshot : Snap
  stopped : Bool
  deriving Repr

/-- `on_thread_start`: the baseline; `none` = `start()` raised -/
def Emitter.start (recursive : Bool) (root : VNode) : Option Emitter :=
  match takeSnapshot recursive root with
  | .ok s => some ⟨recursive, root.name, s, false⟩
  | .error _ => none

/-- one `queue_events` call on the file system state `root`: new emitter state and the groups of
    events queued -/
def Emitter.poll (em : Emitter) (root : VNode) : Emitter × List (List Event) :=
  if em.stopped then (em, [])
  else match takeSnapshot em.recursive root with
    | .error _ => ({ em with stopped := true }, [[⟨.DirDeletedEvent, em.rootPath, "", false⟩]])
    | .ok new =>
      let d := diff false em.snapshot new
      ({ em with snapshot := new }, diffEvents (d.lists em.snapshot new))

end WD.Poll
