/-
  WD.Model.PipelineFilter — the native pipeline of WD.Model.Pipeline under an event filter:
  the kernel only queues the record kinds of the watch's mask (`get_event_mask_from_filter`; the
  watch-removed marker IN_IGNORED comes regardless), and `EventEmitter.queue_event` only queues
  events that are instances of one of the filter's classes.
-/
import WD.Model.Pipeline
namespace WD.Pipe

/-- what the kernel delivers under watch mask `m` -/
def maskRecs (m : Flag → Bool) (recs : List NRec) : List NRec :=
  recs.filter (fun r => r.flag == .ignored || m r.flag)

/-- `Sys.op` with mask `m` on every watch and class filter `acc` on the emitter's queue -/
def Sys.opF (m : Flag → Bool) (acc : EvClass → Bool) (s : Sys) (op : Op) : Sys × List PEv :=
  let (fs1, k1, recs) := kernelOp s.fs s.k op
  if s.stopped || s.crashed then ({ s with fs := fs1, k := k1 }, [])
  else
    match libBatch fs1 k1 s.lib (maskRecs m recs) with
    | none => ({ s with fs := fs1, k := k1, crashed := true }, [])
    | some (k2, lib2, levs) =>
      let gs := gsOf levs
      let (evs, stop) := emitAll fs1 lib2.recursive s.full gs
      match forgetAll fs1 k2 lib2 (if lib2.recursive then movedOut gs else []) with
      | none => ({ s with fs := fs1, k := k2, lib := lib2, crashed := true }, evs.filter (fun e => acc e.cls))
      | some (k3, lib3) => ({ s with fs := fs1, k := k3, lib := lib3, stopped := stop }, evs.filter (fun e => acc e.cls))

def Sys.runF (m : Flag → Bool) (acc : EvClass → Bool) (s : Sys) : List Op → Sys × List (List PEv)
  | [] => (s, [])
  | op :: rest =>
    let (s1, evs) := s.opF m acc op
    let (s2, more) := s1.runF m acc rest
    (s2, evs :: more)

end WD.Pipe
