/-
  WD.Model.WinEmit — the ReadDirectoryChangesW translation layer
  (`WindowsApiEmitter.queue_events`, src/watchdog/observers/read_directory_changes.py) over the
  file-system model of WD.Model.Pipeline, and a documented-semantics simulator of the notification
  records Windows queues for one file-system operation on a watched directory (`bWatchSubtree` =
  the watch's `recursive` flag).  The simulator is an ASSUMPTION about an OS that cannot be observed
  in this sandbox (DESIGN.md §7); the emitter is tied to the real class on every run (harness/c20.py).
-/
import WD.Model.Pipeline
import WD.Spec.PipelineSpec
namespace WD.Win
open WD WD.Pipe

/-- FILE_ACTION_* (REMOVED_SELF is watchdog's own marker for a lost root handle) -/
inductive Act
  | added | removed | modified | renamedOld | renamedNew | removedSelf
  deriving DecidableEq, Repr, Inhabited

/-- one decoded FILE_NOTIFY_INFORMATION; `path` is `os.path.join(watch.path, name)` -/
structure WRec where
  act : Act
  path : P
  deriving DecidableEq, Repr, Inhabited

/-- emitter state that survives a read: the pending RENAMED_OLD_NAME, and whether `stop()` was called -/
structure EmSt where
  lastOld : P := []
  stopped : Bool := false
  deriving DecidableEq, Repr, Inhabited

/-- `generate_sub_moved_events(src, dest)` with an unknown (empty) source: `renamed_path = ""` -/
def subMovedW (fs : FS) (src dst : P) : List PEv :=
  if src = [] then
    (fs.descendants dst).map (fun e => mkEv (if e.isDir then .DirMovedEvent else .FileMovedEvent) [] e.path true)
  else subMoved fs src dst

/-- one record through the loop body of `queue_events` (`fs` = the file system when the emitter looks) -/
def emitRec (fs : FS) (recursive : Bool) (st : EmSt) (r : WRec) : EmSt × List PEv :=
  match r.act with
  | .renamedOld => ({ st with lastOld := r.path }, [])
  | .renamedNew =>
    if fs.isDir r.path then
      (st, [mkEv .DirMovedEvent st.lastOld r.path] ++ (if recursive then subMovedW fs st.lastOld r.path else []))
    else (st, [mkEv .FileMovedEvent st.lastOld r.path])
  | .modified => (st, [mkEv (if fs.isDir r.path then .DirModifiedEvent else .FileModifiedEvent) r.path])
  | .added =>
    (st, [mkEv (createdCls (fs.isDir r.path)) r.path] ++
         (if fs.isDir r.path && recursive then subCreated fs r.path else []))
  | .removed => (st, [mkEv .FileDeletedEvent r.path])
  | .removedSelf => ({ st with stopped := true }, [mkEv .DirDeletedEvent ["W"]])

/-- one read (`queue_events` once): every record of the buffer, in order -/
def emitBatch (fs : FS) (recursive : Bool) (st : EmSt) (recs : List WRec) : EmSt × List PEv :=
  recs.foldl (fun (acc : EmSt × List PEv) r =>
    ((emitRec fs recursive acc.1 r).1, acc.2 ++ (emitRec fs recursive acc.1 r).2)) (st, [])

/-- several reads against the same file system (a buffer cut anywhere) -/
def emitBatches (fs : FS) (recursive : Bool) (st : EmSt) (bs : List (List WRec)) : EmSt × List PEv :=
  bs.foldl (fun (acc : EmSt × List PEv) b =>
    ((emitBatch fs recursive acc.1 b).1, acc.2 ++ (emitBatch fs recursive acc.1 b).2)) (st, [])

/- ---------------------------- documented-semantics simulator ---------------------------- -/

/-- is a change of the entry `p` reported to a handle on `W`?  with `bWatchSubtree`: everything below
    the root; without: the root's direct children only -/
def vis (recursive : Bool) (p : P) : Bool :=
  if recursive then isUnder ["W"] p else (p.length == 2 && isUnder ["W"] p)

/-- the records Windows queues for one operation (none of the optional LAST_WRITE / ATTRIBUTES
    notifications for parent directories: those are `noise`, see `Noisy`) -/
def winRecs (fs : FS) (recursive : Bool) (op : Op) : List WRec :=
  let v := vis recursive
  let one := fun (a : Act) (p : P) => if v p then [WRec.mk a p] else []
  match op with
  | .create p => one .added p
  | .mkdir p => one .added p
  | .write p => one .modified p
  | .chmod p => one .modified p
  | .unlink p => one .removed p
  | .rmdir p => if p == ["W"] then [⟨.removedSelf, ["W"]⟩] else one .removed p
  | .rmtree p => ((canonOrder fs p) ++ [p]).flatMap (one .removed)
  | .rmtreeOrd p order => (order ++ [p]).flatMap (one .removed)
  | .rename p q =>
    if v p && v q then [⟨.renamedOld, p⟩, ⟨.renamedNew, q⟩]
    else if v p then [⟨.removed, p⟩]
    else if v q then [⟨.added, q⟩]
    else []

/-- what Windows accepts: `os.rename` refuses an existing destination (`FileExistsError`) -/
def winValid (fs : FS) (op : Op) : Bool :=
  validOp fs op && (match op with | .rename _ q => !fs.exists q | _ => true)

/-- the sequence `recs'` is `recs` with extra MODIFIED records in between (LAST_WRITE / LAST_ACCESS /
    ATTRIBUTES notifications of parents and of the entries themselves) -/
def Noisy (recs recs' : List WRec) : Prop := recs'.filter (fun r => r.act != .modified) = recs.filter (fun r => r.act != .modified)

/- ---------------------------- the contract of the Windows layer ---------------------------- -/

/-- the events one operation must produce on Windows (removals are reported as file deletions: the
    API does not tell the kind of a name that is gone), and whether the emitter stops -/
def winContract (fs : FS) (recursive : Bool) (op : Op) : List PEv × Bool :=
  let v := vis recursive
  let fs1 := fsAfter fs op
  let del := fun (p : P) => if v p then [mkEv .FileDeletedEvent p] else []
  match op with
  | .create p => (if v p then [mkEv .FileCreatedEvent p] else [], false)
  | .mkdir p => (if v p then [mkEv .DirCreatedEvent p] else [], false)
  | .write p => (if v p then [mkEv .FileModifiedEvent p] else [], false)
  | .chmod p => (if v p then [mkEv (if fs.isDir p then .DirModifiedEvent else .FileModifiedEvent) p] else [], false)
  | .unlink p => (del p, false)
  | .rmdir p => if p == ["W"] then ([mkEv .DirDeletedEvent ["W"]], true) else (del p, false)
  | .rmtree p => (((canonOrder fs p) ++ [p]).flatMap del, false)
  | .rmtreeOrd p order => ((order ++ [p]).flatMap del, false)
  | .rename p q =>
    let d := fs.isDir p
    if v p && v q then
      ([mkEv (movedCls d) p q] ++ (if d && recursive then subMoved fs1 p q else []), false)
    else if v p then ([mkEv .FileDeletedEvent p], false)
    else if v q then ([mkEv (createdCls d) q] ++ (if d && recursive then subCreated fs1 q else []), false)
    else ([], false)

/- ---------------------------- a whole history, every operation drained ---------------------------- -/

structure WSys where
  fs : FS
  st : EmSt := {}
  recursive : Bool
  deriving Repr, Inhabited

/-- one operation; its records are read in the pieces `cut` prescribes (lengths of the successive
    reads; what is left over forms the last read) -/
def cutInto : List Nat → List WRec → List (List WRec)
  | [], recs => [recs]
  | n :: ns, recs => if recs.length ≤ n + 1 then [recs] else recs.take (n + 1) :: cutInto ns (recs.drop (n + 1))

def WSys.op (s : WSys) (op : Op) (cut : List Nat := []) : WSys × List PEv :=
  let fs1 := fsAfter s.fs op
  if s.st.stopped then ({ s with fs := fs1 }, [])
  else
    let r := emitBatches fs1 s.recursive s.st (cutInto cut (winRecs s.fs s.recursive op))
    ({ s with fs := fs1, st := r.1 }, r.2)

def WSys.run (s : WSys) : List Op → WSys × List (List PEv)
  | [] => (s, [])
  | op :: rest =>
    let (s1, evs) := s.op op
    let (s2, more) := s1.run rest
    (s2, evs :: more)

/-- a history whose operations' records are read in prescribed pieces -/
def WSys.runCuts (s : WSys) : List (Op × List Nat) → WSys × List (List PEv)
  | [] => (s, [])
  | (op, cut) :: rest =>
    let (s1, evs) := s.op op cut
    let (s2, more) := s1.runCuts rest
    (s2, evs :: more)

def winContractRun (fs : FS) (recursive : Bool) : List Op → List (List PEv)
  | [] => []
  | op :: rest =>
    let c := winContract fs recursive op
    c.1 :: (if c.2 then rest.map (fun _ => []) else winContractRun (fsAfter fs op) recursive rest)

def winFsValid (fs : FS) : List Op → Bool
  | [] => true
  | op :: rest => winValid fs op && winFsValid (fsAfter fs op) rest

end WD.Win

namespace WD.Win
open WD WD.Pipe

/-- the records of several operations issued before the emitter reads: each operation's records as the OS queues them
    (against the file system as it is when the operation happens), one after the other; and the final file system -/
def winRecsAll (fs : FS) (recursive : Bool) : List Op → FS × List WRec
  | [] => (fs, [])
  | op :: rest =>
    let r := winRecs fs recursive op
    let (fsN, more) := winRecsAll (fsAfter fs op) recursive rest
    (fsN, r ++ more)

/-- a whole burst handed to `queue_events` in ONE read, after its last operation -/
def WSys.burst (s : WSys) (ops : List Op) : WSys × List PEv :=
  let (fsN, recs) := winRecsAll s.fs s.recursive ops
  if s.st.stopped then ({ s with fs := fsN }, [])
  else
    let r := emitBatch fsN s.recursive s.st recs
    ({ s with fs := fsN, st := r.1 }, r.2)

/-- file operations (Windows refuses to rename onto an existing name: `winValid`) -/
def winFileKind (fs : FS) : Op → Bool
  | .create _ | .write _ | .unlink _ | .chmod _ => true
  | .rename p _ => fs.isFile p
  | _ => false

def winAllFile (fs : FS) : List Op → Bool
  | [] => true
  | op :: rest => winValid fs op && winFileKind fs op && winAllFile (fsAfter fs op) rest

end WD.Win
