/-
  WD.Model.Debouncer — `watchdog.utils.event_debouncer.EventDebouncer` as a transition system:
  the debouncer thread's condition-variable loop, producers calling `handle_event`, a thread calling
  `stop()` then `join()`; virtual clock.  The condition's lock is never held at a visible operation
  (`wait` releases it, the callback runs inside one step), so it is not a state component.
-/
namespace WD.Deb

inductive Op
  | event (v : Nat)       -- `handle_event(e)`
  | stop                  -- `stop()`
  | join                  -- `join()` of the debouncer thread
  | sleep (d : Nat)
  deriving DecidableEq, Repr, Inhabited

inductive Pc
  | begin
  | acq (op : Op)                 -- client at `with self._cond:`
  | joining
  | sleeping (deadline : Nat)
  | dAcq                          -- debouncer at `with self._cond:` (start of run)
  | dWaitFirst                    -- `self._cond.wait()` for the first event of a batch
  | dWaitMore (deadline : Nat)    -- `self._cond.wait(timeout=interval)`
  | done
  deriving DecidableEq, Repr, Inhabited

inductive Obs
  | handed (tid : Nat) (v : Nat) (t : Nat)     -- handle_event appended the event
  | batch (vs : List Nat) (t : Nat)            -- events_callback(vs)
  | stopped (tid : Nat) (t : Nat)              -- stop() returned
  | joined (tid : Nat) (t : Nat)
  deriving DecidableEq, Repr, Inhabited

structure Thread where
  pc : Pc
  script : List Op
  deriving DecidableEq, Repr, Inhabited

structure State where
  interval : Nat
  clock : Nat := 0
  events : List Nat := []       -- `_events`
  running : Bool := true        -- `should_keep_running()`
  notified : Bool := false      -- the debouncer has a pending notify while in wait()
  deb : Pc := .begin            -- the debouncer thread (tid 0)
  clients : List Thread         -- tids 1..
  hist : List Obs := []
  deriving Repr, Inhabited

def init (interval : Nat) (scripts : List (List Op)) : State :=
  { interval := interval, clients := scripts.map (fun s => { pc := .begin, script := s }) }

def State.log (s : State) (o : Obs) : State := { s with hist := s.hist ++ [o] }

/-- `self._cond.notify()`: wakes the debouncer if it is waiting -/
def State.notify (s : State) : State :=
  match s.deb with
  | .dWaitFirst => { s with notified := true }
  | .dWaitMore _ => { s with notified := true }
  | _ => s

mutual
/-- the debouncer's loop from its head (lock held) up to its next wait (repaired: the first wait is
    skipped when events are already pending or the thread was told to stop) -/
def debLoop (fuel : Nat) (s : State) : State :=
  match fuel with
  | 0 => s
  | fuel + 1 =>
    if s.events.isEmpty && s.running then { s with deb := .dWaitFirst, notified := false }
    else debAfterFirst fuel s
/-- after the first wait: the debounce waits, then deliver or leave -/
def debAfterFirst (fuel : Nat) (s : State) : State :=
  match fuel with
  | 0 => s
  | fuel + 1 =>
    if s.interval != 0 && s.running then { s with deb := .dWaitMore (s.clock + s.interval), notified := false }
    else debDeliver fuel s
def debDeliver (fuel : Nat) (s : State) : State :=
  match fuel with
  | 0 => s
  | fuel + 1 =>
    if !s.running then { s with deb := .done }
    else debLoop fuel (({ s with events := [] } : State).log (.batch s.events s.clock))
end

def debEnabled (s : State) : Bool :=
  match s.deb with
  | .done => false
  | .dWaitFirst => s.notified
  | .dWaitMore dl => s.notified || dl ≤ s.clock
  | _ => true

def debStep (s : State) : Option State :=
  if !debEnabled s then none else
  match s.deb with
  | .begin => some { s with deb := .dAcq }
  | .dAcq => some (debLoop 8 s)
  | .dWaitFirst => some (debAfterFirst 8 { s with notified := false })
  | .dWaitMore _ =>
    if s.notified then
      -- woken by a notify: `while self.should_keep_running()` again
      let s1 := { s with notified := false }
      if s1.running then some { s1 with deb := .dWaitMore (s1.clock + s1.interval) }
      else some (debDeliver 8 s1)
    else some (debDeliver 8 s)        -- timed out: the batch is complete
  | _ => none

def State.client? (s : State) (i : Nat) : Option Thread := s.clients[i]?
def State.setClient (s : State) (i : Nat) (t : Thread) : State := { s with clients := s.clients.set i t }

def arrive (s : State) (i : Nat) (t : Thread) : State :=
  match t.script with
  | [] => s.setClient i { t with pc := .done }
  | .sleep d :: rest => s.setClient i { pc := .sleeping (s.clock + d), script := rest }
  | .join :: rest => s.setClient i { pc := .joining, script := rest }
  | op :: rest => s.setClient i { pc := .acq op, script := rest }

def clientEnabled (s : State) (i : Nat) : Bool :=
  match s.client? i with
  | none => false
  | some t =>
    match t.pc with
    | .done => false
    | .joining => s.deb == .done
    | .sleeping dl => dl ≤ s.clock
    | _ => true

def clientStep (s : State) (i : Nat) : Option State :=
  if !clientEnabled s i then none else
  match s.client? i with
  | none => none
  | some t =>
    match t.pc with
    | .begin => some (arrive s i t)
    | .acq (.event v) =>
      let s1 := ({ s with events := s.events ++ [v] } : State).log (.handed (i + 1) v s.clock)
      some (arrive s1.notify i t)
    | .acq .stop =>
      let s1 := ({ s with running := false } : State).notify
      some (arrive (s1.log (.stopped (i + 1) s1.clock)) i t)
    | .joining => some (arrive (s.log (.joined (i + 1) s.clock)) i t)
    | .sleeping _ => some (arrive s i t)
    | _ => none

/-- tid 0 = the debouncer thread, tid k+1 = client k -/
def step (s : State) : Nat → Option State
  | 0 => debStep s
  | k + 1 => clientStep s k

def enabled (s : State) : Nat → Bool
  | 0 => debEnabled s
  | k + 1 => clientEnabled s k

inductive Action
  | step (tid : Nat)
  | tick (d : Nat)
  deriving DecidableEq, Repr, Inhabited

def act (s : State) : Action → State
  | .step tid => (step s tid).getD s
  | .tick d => { s with clock := s.clock + d }

def run (s : State) (as : List Action) : State := as.foldl act s

def enabledList (s : State) : List Nat := (List.range (s.clients.length + 1)).filter (enabled s)

def deadlines (s : State) : List Nat :=
  (match s.deb with | .dWaitMore dl => [dl] | _ => []) ++
  s.clients.filterMap (fun t => match t.pc with | .sleeping dl => some dl | _ => none)

def idleAdvance (s : State) : State :=
  if (enabledList s).isEmpty then
    match (deadlines s).min? with
    | some dl => if s.clock < dl then { s with clock := dl } else s
    | none => s
  else s

end WD.Deb
