#!/bin/sh
# Build the Lean models, proofs and the line-protocol driver from files on disk (offline).
set -e
cd "$(dirname "$0")"
/venv/bin/python harness/tables.py
cd lean
lake build wd
lake build WD
