#!/bin/sh
# Build the Lean models, proofs and the line-protocol driver from files on disk (offline).
set -e
cd "$(dirname "$0")/lean"
lake build wd
lake build WD
